"""Path exploration by re-execution, obligations, transcendental abstraction."""
from __future__ import annotations
import contextlib
import math
import time
from fractions import Fraction
import z3

from . import state as _st
from .sym import (SV, SC, SOpt, SList, Undecided, StopPath, z3real, z3int, z3bool, concrete_value,
                  ite, _mul)


class Obligation:
    __slots__ = ("name", "hyps", "goal", "split", "path", "kind", "meta", "inputs")

    def __init__(self, name, hyps, goal, split, path, kind="post", meta=None, inputs=None):
        self.inputs = inputs or []
        self.name = name
        self.hyps = hyps
        self.goal = goal
        self.split = split or []
        self.path = path
        self.kind = kind      # post | pre-call | inv-entry | inv-preserve | frame | cover | lemma ...
        self.meta = meta or {}


class PathInfo:
    def __init__(self, idx, decisions):
        self.idx = idx
        self.decisions = list(decisions)
        self.status = None
        self.note = None


class Engine:
    FEAS_TIMEOUT_MS = 1500

    def __init__(self):
        self.obligations = []
        self.covers = []          # (name, formula that must be SAT)
        self.paths = []
        self.undecided = []       # (where, reason)
        self.trusted = set()      # assumed contracts / axioms actually used
        self.stats = {"branches": 0, "feas_checks": 0, "paths": 0}
        self.math = MathAbs(self)
        self._spec = 0
        self.worklist = []
        self.pc = []
        self.decisions = []
        self.prefix = []
        self.solver = None
        self._fresh = {}
        self._tick = 0
        self.loop_stack = []
        self.current_fn = None
        self.max_paths = 4000
        self.guard_frames = []
        self._summ = []
        self.bound_vars = set()

    # ------------------------------------------------------------------ exploration
    def explore(self, body, label=""):
        """Run body() once per feasible path.  body registers obligations via oblige()."""
        prev = _st.ENGINE
        _st.ENGINE = self
        self.worklist = [[]]
        self.cur_label = label
        n = 0
        try:
            while self.worklist:
                prefix = self.worklist.pop()
                n += 1
                if n > self.max_paths:
                    self.undecided.append((label, f"more than {self.max_paths} paths"))
                    break
                self._begin(prefix)
                p = PathInfo(len(self.paths), prefix)
                self.paths.append(p)
                self.cur_path = p
                try:
                    body()
                    p.status = "done"
                except NeedHavoc as e:
                    from .instrument import RT
                    RT.extra_havoc.setdefault(e.loop_id, set()).add(e.obj.birth)
                    p.status = "restart"
                    nrestart = getattr(self, "_nrestart", 0) + 1
                    self._nrestart = nrestart
                    if nrestart > 50:
                        self.undecided.append((label, "havoc-set inference did not converge"))
                    else:
                        # obligations registered by this aborted run are dropped, path is re-run
                        self.obligations = [o for o in self.obligations if o.path != p.idx]
                        self.covers = [c for c in self.covers if c[2] != p.idx]
                        self.worklist.append(prefix)
                except StopPath as e:
                    p.status = "pruned"
                    p.note = str(e)
                except Undecided as e:
                    p.status = "undecided"
                    p.note = str(e)
                    self.undecided.append((label, str(e)))
                except RecursionError as e:
                    p.status = "undecided"
                    p.note = "recursion limit"
                    self.undecided.append((label, "recursion limit"))
                p.decisions = list(self.decisions)
        finally:
            _st.ENGINE = prev
        self.stats["paths"] += n
        return n

    def _begin(self, prefix):
        self.prefix = prefix
        self.decisions = []
        self.pc = []
        self.solver = z3.Solver()
        self.solver.set("timeout", self.FEAS_TIMEOUT_MS)
        self._fresh = {}
        self._tick = 0
        self.loop_stack = []
        self.math.reset()
        self.bound_vars = set()
        from .instrument import RT
        RT.frames = []
        RT._pending = {}
        self.ghost = {}
        self.loop_counts = {}
        self.guard_frames = []
        self._spec = 0
        self._summ = []

    def tick(self):
        self._tick += 1
        return self._tick

    # ------------------------------------------------------------------ fresh symbols
    def fresh(self, name, sort, bound=False):
        k = self._fresh.get(name, 0)
        self._fresh[name] = k + 1
        c = z3.Const(f"{name}!{k}" if k else name, sort)
        return c

    def fresh_fun(self, name, *sorts):
        k = self._fresh.get("F:" + name, 0)
        self._fresh["F:" + name] = k + 1
        return z3.Function(f"{name}!{k}" if k else name, *sorts)

    def sym_int(self, name):
        return SV(self.fresh(name, z3.IntSort()))

    def sym_real(self, name):
        return SV(self.fresh(name, z3.RealSort()))

    def sym_bool(self, name):
        return SV(self.fresh(name, z3.BoolSort()))

    def sym_complex(self, name):
        return SC(self.fresh(name + "_re", z3.RealSort()), self.fresh(name + "_im", z3.RealSort()))

    def sym_optint(self, name):
        return SOpt(self.fresh(name + "_isnone", z3.BoolSort()), self.fresh(name + "_val", z3.IntSort()))

    # ------------------------------------------------------------------ assumptions / branches
    def assume(self, cond, note=None):
        t = cond if isinstance(cond, z3.ExprRef) else z3bool(cond)
        t = z3.simplify(t)
        if z3.is_true(t):
            return
        if z3.is_false(t):
            raise StopPath("assumption false")
        self.pc.append(t)
        self.solver.add(t)

    def assume_feasible(self, cond):
        """assume, and prune the path if it became infeasible"""
        self.assume(cond)
        if self.solver.check() == z3.unsat:
            raise StopPath("assumption infeasible")

    @contextlib.contextmanager
    def spec_mode(self):
        self._spec += 1
        try:
            yield
        finally:
            self._spec -= 1

    def _feasible(self, cond):
        self.stats["feas_checks"] += 1
        r = self.solver.check(cond)
        return r != z3.unsat

    def summarize(self, fn, cap=64):
        """evaluate a PURE expression by enumerating its own branches (no global forking):
        returns (merged value or None, [(path condition, exception)])"""
        fr = {"work": [[]], "prefix": [], "decisions": [], "conds": []}
        self._summ.append(fr)
        vals, excs = [], []
        n = 0
        saved_spec = self._spec
        self._spec = 0
        try:
            while fr["work"]:
                n += 1
                if n > cap:
                    raise Undecided("pure sub-expression has too many branches to summarise")
                fr["prefix"] = fr["work"].pop()
                fr["decisions"] = []
                fr["conds"] = []
                try:
                    v = fn()
                    vals.append((z3.And(fr["conds"]) if fr["conds"] else z3.BoolVal(True), v))
                except Exception as e:
                    excs.append((z3.And(fr["conds"]) if fr["conds"] else z3.BoolVal(True), e))
        finally:
            self._summ.pop()
            self._spec = saved_spec
        if not vals:
            return None, excs
        r = vals[-1][1]
        for c, v in reversed(vals[:-1]):
            r = ite(SV(c), v, r)
        return r, excs

    def branch(self, cond):
        cond = z3.simplify(cond)
        if z3.is_true(cond):
            return True
        if z3.is_false(cond):
            return False
        if self._summ and not self._spec:
            fr = self._summ[-1]
            idx = len(fr["decisions"])
            if idx < len(fr["prefix"]):
                d = fr["prefix"][idx]
            else:
                d = True
                fr["work"].append(fr["decisions"] + [False])
            fr["decisions"].append(d)
            fr["conds"].append(cond if d else z3.Not(cond))
            return d
        if self._spec:
            raise Undecided("symbolic truth value inside a specification (use And/Or/Implies/ite)")
        self.stats["branches"] += 1
        idx = len(self.decisions)
        if idx < len(self.prefix):
            d = self.prefix[idx]
            if not isinstance(d, bool):
                raise RuntimeError("decision log out of sync (non-deterministic re-execution)")
        else:
            can_t = self._feasible(cond)
            can_f = self._feasible(z3.Not(cond))
            if can_t and can_f:
                d = True
                self.worklist.append(self.decisions + [False])
            elif can_t:
                d = True
            elif can_f:
                d = False
            else:
                raise StopPath("path condition infeasible")
        self.decisions.append(d)
        c = cond if d else z3.Not(cond)
        self.pc.append(c)
        self.solver.add(c)
        return d

    def concretize_int(self, t, cap=64):
        t = z3.simplify(t)
        if z3.is_int_value(t):
            return t.as_long()
        if self._spec:
            raise Undecided("concretisation inside a specification")
        tries = 0
        while True:
            tries += 1
            if tries > cap:
                raise Undecided(f"integer {t} has more than {cap} feasible values (needs a symbolic container)")
            idx = len(self.decisions)
            if idx < len(self.prefix):
                entry = self.prefix[idx]
                if isinstance(entry, bool):
                    raise RuntimeError("decision log out of sync")
            else:
                r = self.solver.check()
                if r == z3.unsat:
                    raise StopPath("infeasible")
                if r != z3.sat:
                    raise Undecided("feasibility unknown while concretising an index")
                v = self.solver.model().eval(t, model_completion=True)
                if not z3.is_int_value(v):
                    raise Undecided("cannot concretise")
                v = v.as_long()
                # prefer the smallest non-negative candidate for determinism-friendly small cases
                for cand in range(0, 4):
                    if cand != v and self.solver.check(t == cand) == z3.sat:
                        v = cand
                        break
                entry = ("pick", v)
                if self._feasible(t != v):
                    self.worklist.append(self.decisions + [("skip", v)])
            self.decisions.append(entry)
            kind, v = entry
            if kind == "pick":
                self.pc.append(t == v)
                self.solver.add(t == v)
                return v
            self.pc.append(t != v)
            self.solver.add(t != v)

    def choose(self, n, what="choice"):
        """non-deterministic choice in range(n): every alternative is explored"""
        c = self.fresh("choice_" + what, z3.IntSort())
        self.assume(z3.And(c >= 0, c < n))
        return self.concretize_int(c, cap=max(64, n + 1))

    def check_div(self, den):
        pass  # division is total in the encoding (listed under assumptions)

    # ------------------------------------------------------------------ mutation tracking for cut loops
    def note_mutation(self, obj):
        ident = id(getattr(obj, "store", obj))
        for L in self.loop_stack:
            if L.get("arbitrary") and obj.birth <= L["epoch"] and ident not in L["havoc_ids"]:
                raise NeedHavoc(L["id"], obj)

    # ------------------------------------------------------------------ obligations
    def oblige(self, name, goal, split=None, kind="post", meta=None):
        g = goal if isinstance(goal, z3.ExprRef) else z3bool(goal)
        sp = []
        for s in (split or []):
            sp.append(s.t if isinstance(s, SV) else s)
        self.obligations.append(Obligation(name, list(self.pc), g, sp, self.cur_path.idx, kind, meta,
                                           inputs=list(getattr(self, "inputs", []))))
        self.obligations[-1].meta = dict(self.obligations[-1].meta, proof=self.cur_label)

    def cover(self, name, extra=None):
        """reachability: pc (and extra) must be satisfiable somewhere; collected per name"""
        f = z3.And(self.pc) if self.pc else z3.BoolVal(True)
        if extra is not None:
            f = z3.And(f, z3bool(extra))
        self.covers.append((name, f, self.cur_path.idx))

    def trust(self, what):
        self.trusted.add(what)


class NeedHavoc(BaseException):
    def __init__(self, loop_id, obj):
        self.loop_id = loop_id
        self.obj = obj


# ======================================================================================
# Transcendental abstraction: sound over-approximation by algebraic facts (DESIGN 2.6)
# ======================================================================================

PI = math.pi


def _lin(t):
    """linear decomposition of a real term: ({key: (coeff Fraction, term)}, const Fraction)"""
    t = z3.simplify(t, som=True)
    atoms = {}
    const = Fraction(0)

    def add(term, coeff):
        nonlocal const
        if z3.is_rational_value(term):
            const += coeff * Fraction(term.numerator_as_long(), term.denominator_as_long())
            return
        if z3.is_int_value(term):
            const += coeff * term.as_long()
            return
        if z3.is_app(term):
            k = term.decl().kind()
            if k == z3.Z3_OP_ADD:
                for c in term.children():
                    add(c, coeff)
                return
            if k == z3.Z3_OP_SUB:
                ch = term.children()
                add(ch[0], coeff)
                for c in ch[1:]:
                    add(c, -coeff)
                return
            if k == z3.Z3_OP_UMINUS:
                add(term.children()[0], -coeff)
                return
            if k == z3.Z3_OP_MUL:
                ch = term.children()
                num = Fraction(1)
                rest = []
                for c in ch:
                    if z3.is_rational_value(c):
                        num *= Fraction(c.numerator_as_long(), c.denominator_as_long())
                    elif z3.is_int_value(c):
                        num *= c.as_long()
                    else:
                        rest.append(c)
                if not rest:
                    const += coeff * num
                    return
                if len(rest) == 1:
                    add(rest[0], coeff * num)
                    return
                term = rest[0]
                for r in rest[1:]:
                    term = term * r
                coeff = coeff * num
            elif k == z3.Z3_OP_DIV:
                a, b = term.children()
                if z3.is_rational_value(b) and b.numerator_as_long() != 0:
                    add(a, coeff / Fraction(b.numerator_as_long(), b.denominator_as_long()))
                    return
            elif k == z3.Z3_OP_TO_REAL:
                inner = term.children()[0]
                if z3.is_int_value(inner):
                    const += coeff * inner.as_long()
                    return
        key = term.sexpr()
        if key in atoms:
            atoms[key] = (atoms[key][0] + coeff, term)
        else:
            atoms[key] = (coeff, term)

    add(t, Fraction(1))
    atoms = {k: v for k, v in atoms.items() if v[0] != 0}
    return atoms, const


def _find_ite(t):
    seen = set()
    stack = [t]
    while stack:
        x = stack.pop()
        if x.get_id() in seen:
            continue
        seen.add(x.get_id())
        if z3.is_app(x) and x.decl().kind() == z3.Z3_OP_ITE and x.sort() == z3.RealSort():
            return x
        if z3.is_app(x) and x.decl().kind() == z3.Z3_OP_UNINTERPRETED:
            continue
        stack.extend(x.children())
    return None


class MathAbs:
    def __init__(self, eng):
        self.eng = eng
        self.reset()

    def reset(self):
        self.trig_pairs = {}    # (atomkey, denom) -> (c, s)
        self.hyp_pairs = {}
        self.atom_denoms = {}   # ('t'|'h', atomkey) -> {denom: pair}
        self.atom_range = {}    # atomkey -> (lo, hi) floats in units of radians
        self.sqrt_memo = {}
        self.zero_facts = set()
        self.sqrt2h = None
        self.used = set()

    def _use(self, what):
        self.eng.trusted.add("math-axiom: " + what)

    # ---- sqrt
    def sqrt(self, x):
        if isinstance(x, SC):
            raise Undecided("complex sqrt")
        c = concrete_value(x) if isinstance(x, SV) else x
        if c is not None and not isinstance(c, bool):
            f = Fraction(c) if not isinstance(c, float) else Fraction(repr(c))
            if f >= 0:
                n, d = f.numerator, f.denominator
                rn, rd = math.isqrt(n), math.isqrt(d)
                if rn * rn == n and rd * rd == d:
                    return SV(z3.RealVal(str(Fraction(rn, rd))))
                # sqrt(2 q^2) = 2 q * (sqrt(2)/2): one shared algebraic constant
                g = f / 2
                gn, gd = math.isqrt(g.numerator), math.isqrt(g.denominator)
                if gn * gn == g.numerator and gd * gd == g.denominator:
                    return SV(z3.RealVal(str(2 * Fraction(gn, gd))) * self._sqrt2h())
        t = z3.simplify(z3real(x))
        key = t.sexpr()
        if key in self.sqrt_memo:
            return SV(self.sqrt_memo[key])
        w = self.eng.fresh("sqrt", z3.RealSort())
        self.eng.assume(z3.And(w >= 0, z3.Implies(t >= 0, w * w == t)), note="sqrt")
        self._use("sqrt(x)=w with w>=0 and (x>=0 -> w*w=x)")
        self.sqrt_memo[key] = w
        return SV(w)

    def _sqrt2h(self):
        if self.sqrt2h is None:
            w = self.eng.fresh("sqrt2h", z3.RealSort())
            self.eng.assume(z3.And(w > 0, 2 * w * w == 1, w > z3.RealVal("7071/10000"), w < z3.RealVal("7072/10000")))
            self.sqrt2h = w
            self._use("sqrt(2)/2 = w with w>0, 2w^2=1")
        return self.sqrt2h

    # ---- generic pair machinery
    def _base_pair(self, kind, term, key, denom):
        table = self.trig_pairs if kind == "t" else self.hyp_pairs
        if (key, denom) in table:
            return table[(key, denom)]
        eng = self.eng
        nm = ("cs" if kind == "t" else "chsh")
        c = eng.fresh(nm + "_c", z3.RealSort())
        s = eng.fresh(nm + "_s", z3.RealSort())
        if kind == "t":
            eng.assume(c * c + s * s == 1)
            self._use("cos^2+sin^2=1 (cos/sin of an opaque angle are a point on the unit circle)")
            rng = self.atom_range.get(key)
            if rng is not None:
                lo, hi = rng[0] / denom, rng[1] / denom
                if lo >= -PI / 2 and hi <= PI / 2:
                    eng.assume(c >= 0)
                if lo > -PI / 2 and hi < PI / 2:
                    eng.assume(c > 0)
                if lo >= 0 and hi <= PI:
                    eng.assume(s >= 0)
                if lo >= -PI and hi <= 0:
                    eng.assume(s <= 0)
                if lo >= -PI and hi <= PI:
                    # sign of sin follows the sign of the angle
                    eng.assume(z3.And((s > 0) == (term > 0) if (lo > -PI and hi < PI) else z3.BoolVal(True)))
        else:
            eng.assume(z3.And(c * c - s * s == 1, c >= 1, (s > 0) == (term > 0), (s == 0) == (term == 0)))
            self._use("cosh^2-sinh^2=1, cosh>=1, sign(sinh x)=sign(x)")
        table[(key, denom)] = (c, s)
        # link with other denominators of the same atom (multiple-angle identities)
        others = self.atom_denoms.setdefault((kind, key), {})
        for d2, (c2, s2) in list(others.items()):
            if d2 % denom == 0:      # new angle = m * old angle (old is finer)
                m = d2 // denom
                cm, sm = self._mult(kind, (c2, s2), m)
                eng.assume(z3.And(c == cm, s == sm))
            elif denom % d2 == 0:    # old angle = m * new angle
                m = denom // d2
                cm, sm = self._mult(kind, (c, s), m)
                eng.assume(z3.And(c2 == cm, s2 == sm))
            else:
                raise Undecided("angles with incommensurate denominators of one atom")
            self._use("multiple-angle identities")
        others[denom] = (c, s)
        return c, s

    def _addf(self, kind, p, q):
        (c1, s1), (c2, s2) = p, q
        if kind == "t":
            return (_mul(c1, c2) - _mul(s1, s2), _mul(s1, c2) + _mul(c1, s2))
        return (_mul(c1, c2) + _mul(s1, s2), _mul(s1, c2) + _mul(c1, s2))

    def _mult(self, kind, p, m):
        if m > 16:
            raise Undecided("angle multiple > 16")
        r = (z3.RealVal(1), z3.RealVal(0))
        for _ in range(m):
            r = self._addf(kind, r, p)
        return r

    def _pair(self, kind, x):
        """(cos,sin) resp. (cosh,sinh) of real value x as z3 terms"""
        t = z3real(x)
        # push the function through if-then-else subterms of the argument
        ifn = _find_ite(t)
        if ifn is not None:
            c, a, b = ifn.children()
            pa = self._pair(kind, SV(z3.substitute(t, (ifn, a))))
            pb = self._pair(kind, SV(z3.substitute(t, (ifn, b))))
            return (z3.If(c, pa[0], pb[0]), z3.If(c, pa[1], pb[1]))
        atoms, const = _lin(t)
        res = (z3.RealVal(1), z3.RealVal(0))
        for key in sorted(atoms):
            coeff, term = atoms[key]
            p, q = abs(coeff.numerator), coeff.denominator
            base = self._base_pair(kind, term, key, q)
            pr = self._mult(kind, base, p)
            if coeff < 0:
                pr = (pr[0], -pr[1])
            res = self._addf(kind, res, pr)
        if const != 0:
            if kind == "t":
                res = self._addf(kind, res, self._const_trig(const))
            else:
                key = "const:" + str(const)
                term = z3.RealVal(str(const))
                base = self._base_pair(kind, term, key, 1)
                res = self._addf(kind, res, base)
        if atoms:
            # true fact, once per argument term: a vanishing argument has (cos,sin) = (1,0) / (cosh,sinh) = (1,0)
            tk = (kind, z3.simplify(t).sexpr())
            if tk not in self.zero_facts:
                self.zero_facts.add(tk)
                self.eng.assume(z3.Implies(t == 0, z3.And(res[0] == 1, res[1] == 0)))
        return res

    def _const_trig(self, const):
        f = float(const)
        q = round(f / (PI / 4))
        if abs(f - q * PI / 4) <= 1e-9 * max(1.0, abs(f)):
            q %= 8
            self._use("a float constant within 1e-9 of k*pi/4 is k*pi/4")
            if q % 2 == 0:
                return tuple(z3.RealVal(v) for v in {0: (1, 0), 2: (0, 1), 4: (-1, 0), 6: (0, -1)}[q])
            w = self._sqrt2h()
            sg = {1: (1, 1), 3: (-1, 1), 5: (-1, -1), 7: (1, -1)}[q]
            return (w if sg[0] > 0 else -w, w if sg[1] > 0 else -w)
        # other constant: rational enclosure of cos/sin (true facts, 12 digits)
        key = "const:" + str(const)
        if (key, 1) in self.trig_pairs:
            return self.trig_pairs[(key, 1)]
        c = self.eng.fresh("cs_c", z3.RealSort())
        s = self.eng.fresh("cs_s", z3.RealSort())
        cv, sv = math.cos(f), math.sin(f)
        eps = Fraction(1, 10**9)
        self.eng.assume(z3.And(c * c + s * s == 1,
                               c >= z3.RealVal(str(Fraction(repr(cv)) - eps)), c <= z3.RealVal(str(Fraction(repr(cv)) + eps)),
                               s >= z3.RealVal(str(Fraction(repr(sv)) - eps)), s <= z3.RealVal(str(Fraction(repr(sv)) + eps))))
        self._use("cos/sin of a float constant enclosed within 1e-9")
        self.trig_pairs[(key, 1)] = (c, s)
        return c, s

    # ---- public functions
    def cos(self, x):
        if isinstance(x, SC): raise Undecided("cos of complex")
        return SV(self._pair("t", x)[0])

    def sin(self, x):
        if isinstance(x, SC): raise Undecided("sin of complex")
        return SV(self._pair("t", x)[1])

    def tan(self, x):
        c, s = self._pair("t", x)
        return SV(s / c)

    def cosh(self, x):
        return SV(self._pair("h", x)[0])

    def sinh(self, x):
        return SV(self._pair("h", x)[1])

    def tanh(self, x):
        c, s = self._pair("h", x)
        return SV(s / c)

    def exp(self, x):
        if isinstance(x, SC):
            return self.cexp(x)
        c, s = self._pair("h", x)
        return SV(c + s)

    def cexp(self, z):
        z = SC.lift(z)
        c, s = self._pair("t", SV(z.im))
        re0 = z3.simplify(z.re)
        if z3.is_rational_value(re0) and re0.numerator_as_long() == 0:
            return SC(c, s)
        m = self.exp(SV(z.re)).t
        return SC(m * c, m * s)

    def _new_angle(self, name, c, s, rng):
        a = self.eng.fresh(name, z3.RealSort())
        key = a.sexpr()
        self.atom_range[key] = rng
        lo, hi = rng
        eps = Fraction(1, 10**6)
        self.eng.assume(z3.And(a >= z3.RealVal(str(Fraction(repr(lo)) - eps)), a <= z3.RealVal(str(Fraction(repr(hi)) + eps))))
        self.trig_pairs[(key, 1)] = (c, s)
        self.atom_denoms.setdefault(("t", key), {})[1] = (c, s)
        return a

    def arctan(self, x):
        t = z3real(x)
        w = self.sqrt(SV(1 + t * t)).t
        self.eng.assume(w >= 1)
        c, s = 1 / w, t / w
        a = self._new_angle("atan", c, s, (-PI / 2, PI / 2))
        self.eng.assume(z3.And((a > 0) == (t > 0), (a == 0) == (t == 0)))
        self._use("arctan(t)=a with cos a=1/sqrt(1+t^2), sin a=t/sqrt(1+t^2), |a|<pi/2, sign(a)=sign(t)")
        return SV(a)

    def arctan2(self, y, x):
        ty, tx = z3real(y), z3real(x)
        if bool(SV(z3.And(ty == 0, tx == 0))):
            return 0.0
        w = self.sqrt(SV(tx * tx + ty * ty)).t
        self.eng.assume(w > 0)
        a = self._new_angle("atan2", tx / w, ty / w, (-PI, PI))
        self.eng.assume(z3.And(z3.Implies(ty > 0, a > 0), z3.Implies(ty < 0, a < 0),
                               z3.Implies(z3.And(ty == 0, tx > 0), a == 0)))
        self._use("arctan2(y,x)=a with (cos a, sin a)=(x,y)/|(x,y)|, -pi<a<=pi")
        return SV(a)

    def arccos(self, x):
        t = z3real(x)
        s = self.sqrt(SV(1 - t * t)).t
        a = self._new_angle("acos", t, s, (0.0, PI))
        self._use("arccos(x)=a with cos a=x, sin a=sqrt(1-x^2), 0<=a<=pi")
        return SV(a)

    def arcsin(self, x):
        t = z3real(x)
        c = self.sqrt(SV(1 - t * t)).t
        a = self._new_angle("asin", c, t, (-PI / 2, PI / 2))
        self.eng.assume(z3.And((a > 0) == (t > 0), (a == 0) == (t == 0)))
        self._use("arcsin(x)=a with sin a=x, cos a=sqrt(1-x^2), |a|<=pi/2")
        return SV(a)

    def _new_hyp(self, name, c, s):
        a = self.eng.fresh(name, z3.RealSort())
        key = a.sexpr()
        self.hyp_pairs[(key, 1)] = (c, s)
        self.atom_denoms.setdefault(("h", key), {})[1] = (c, s)
        self.eng.assume(z3.And((a > 0) == (s > 0), (a == 0) == (s == 0)))
        return a

    def arccosh(self, x):
        t = z3real(x)
        s = self.sqrt(SV(t * t - 1)).t
        a = self._new_hyp("acosh", t, s)
        self.eng.assume(a >= 0)
        self._use("arccosh(x)=a>=0 with cosh a=x, sinh a=sqrt(x^2-1)")
        return SV(a)

    def arcsinh(self, x):
        t = z3real(x)
        c = self.sqrt(SV(1 + t * t)).t
        self.eng.assume(c >= 1)
        a = self._new_hyp("asinh", c, t)
        self._use("arcsinh(x)=a with sinh a=x, cosh a=sqrt(1+x^2)")
        return SV(a)

    def arctanh(self, x):
        t = z3real(x)
        w = self.sqrt(SV(1 - t * t)).t
        a = self._new_hyp("atanh", 1 / w, t / w)
        self._use("arctanh(x)=a with cosh a=1/sqrt(1-x^2), sinh a=x/sqrt(1-x^2)")
        return SV(a)

    def log(self, x):
        t = z3real(x)
        a = self._new_hyp("log", (t + 1 / t) / 2, (t - 1 / t) / 2)
        self._use("log(x)=a with cosh a=(x+1/x)/2, sinh a=(x-1/x)/2 (x>0)")
        return SV(a)
