#!/usr/bin/env python3
"""setup check: tooling present, engine guards fire on a canned example."""
import os, subprocess, sys
sys.path.insert(0, os.path.dirname(os.path.dirname(os.path.abspath(__file__))))
import z3
from pyvc.api import *
from pyvc import solve

def main():
    ok = True
    # 1. solvers
    assert z3.get_version_string()
    r = subprocess.run(["/usr/bin/cvc5", "--version"], capture_output=True, text=True)
    assert r.returncode == 0
    r = subprocess.run(["/venv/bin/python", "-c", "import strawberryfields"], capture_output=True, text=True,
                       env=dict(os.environ, PYTHONPATH="/repo"))
    assert r.returncode == 0, r.stderr
    # 2. a true and a false obligation on real code
    eng = Engine()
    prf = Proof("SELF", "strawberryfields.backends.base:ModeMap._single_mode_valid", lambda h: None, name="selftest")
    def body():
        h = H(eng, prf)
        MM = h.cls("strawberryfields.backends.base", "ModeMap")
        mp = h.list("map", "optint")
        self = h.new(MM, _init=0, _map=mp)
        m = h.int("m")
        out = h.call(self._single_mode_valid, m)
        h.ensure("true", eqv(out.value, And(m >= 0, m < mp.length())))
        h.ensure("must-fail", eqv(out.value, And(m >= 0, m <= mp.length())))
    eng.explore(body)
    res = solve.discharge(eng.obligations, workers=2)
    t = [r for r in res if r.name.endswith("/true")]
    f = [r for r in res if r.name.endswith("/must-fail")]
    assert t and all(r.status == "unsat" for r in t), "true obligation not discharged"
    assert any(r.status == "sat" for r in f), "must-fail probe was not refuted: engine unsound or vacuous"
    print("pyvc selftest ok: z3", z3.get_version_string(), "paths", len(eng.paths), "obligations", len(res))

if __name__ == "__main__":
    main()
