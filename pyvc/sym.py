"""Symbolic proxy values for pyvc.

Every symbolic scalar is wrapped (never a raw z3 term: z3's own operator overloads would
otherwise win).  Sorts: Int (python int, unbounded - exact), Bool, Real (python float treated as a
mathematical real: assumption A-real), complex = pair of Reals.

The classes implement the Python data model (dunder methods), so the *real* source of the
function under contract can be executed by CPython itself on these proxies; a symbolic truth
value asks the engine which way to go (``__bool__`` -> Engine.branch), which is how paths fork.
"""
from __future__ import annotations
import math
from fractions import Fraction
import z3

from . import state as _st


class Undecided(BaseException):
    """Raised when execution leaves the supported subset.  Never mapped to a violation."""


class StopPath(BaseException):
    """Path pruned (assumption false / arbitrary loop iteration finished)."""


# ----------------------------------------------------------------------------- helpers

def _frac(x: float) -> Fraction:
    if x != x or x in (float("inf"), float("-inf")):
        raise Undecided("non-finite float constant")
    return Fraction(repr(float(x)))


def is_sym(x) -> bool:
    return isinstance(x, (SV, SC, SOpt, SList, SArrBase))


def z3real(x):
    """python/SV number -> z3 Real term"""
    if isinstance(x, z3.ExprRef):
        s = x.sort()
        return x if s == z3.RealSort() else (z3.ToReal(x) if s == z3.IntSort() else z3.If(x, z3.RealVal(1), z3.RealVal(0)))
    if isinstance(x, SV):
        if x.kind == "real":
            return x.t
        if x.kind == "int":
            return z3.ToReal(x.t)
        if x.kind == "bool":
            return z3.If(x.t, z3.RealVal(1), z3.RealVal(0))
    if isinstance(x, bool):
        return z3.RealVal(1 if x else 0)
    if isinstance(x, int):
        return z3.RealVal(x)
    if isinstance(x, Fraction):
        return z3.RealVal(str(x))
    if isinstance(x, float):
        return _float_term(x)
    import numpy as _np
    if isinstance(x, _np.generic):
        if isinstance(x, (_np.integer, _np.bool_)):
            return z3.RealVal(int(x))
        if isinstance(x, _np.floating):
            return _float_term(float(x))
    if isinstance(x, SOpt):
        return z3real(x._asval())
    raise Undecided(f"cannot convert {type(x).__name__} to Real")


_SQRT2H = 0.7071067811865476


def _float_term(x):
    """float -> Real term.  A-real: a float that is (to 1e-15 relative) a small non-zero integer multiple
    or integer fraction of sqrt(2)/2 denotes that algebraic number exactly (1/np.sqrt(2), np.sqrt(2), ...)."""
    eng = _st.ENGINE
    if eng is not None and x != 0:
        for k in (1, 2, 3, 4):
            for num in (x / _SQRT2H * k,):
                q = round(num)
                if q != 0 and abs(q) <= 16 and abs(num - q) <= 4e-15 * abs(num) and (q % 2 == 1 or k > 1 or q % 2 == 0):
                    # x = (q / k) * sqrt(2)/2 ; exclude plain rationals (q/k*sqrt2/2 is irrational for q != 0)
                    w = eng.math._sqrt2h()
                    return z3.RealVal(str(Fraction(q, k))) * w
    return z3.RealVal(str(_frac(x)))


def z3int(x):
    if isinstance(x, z3.ExprRef):
        if x.sort() == z3.IntSort():
            return x
        if x.sort() == z3.BoolSort():
            return z3.If(x, z3.IntVal(1), z3.IntVal(0))
        raise Undecided("real term used as int")
    if isinstance(x, SV):
        if x.kind == "int":
            return x.t
        if x.kind == "bool":
            return z3.If(x.t, z3.IntVal(1), z3.IntVal(0))
        raise Undecided("real used as int")
    if isinstance(x, bool):
        return z3.IntVal(1 if x else 0)
    if isinstance(x, int):
        return z3.IntVal(x)
    import numpy as _np
    if isinstance(x, (_np.integer, _np.bool_)):
        return z3.IntVal(int(x))
    if isinstance(x, SOpt):
        return z3int(x._asval())
    raise Undecided(f"cannot convert {type(x).__name__} to Int")


def z3bool(x):
    if isinstance(x, z3.ExprRef):
        if x.sort() == z3.BoolSort():
            return x
        return x != 0
    if isinstance(x, SV):
        if x.kind == "bool":
            return x.t
        if x.kind == "int":
            return x.t != 0
        if x.kind == "real":
            return x.t != 0
    if isinstance(x, (bool, int)):
        return z3.BoolVal(bool(x))
    import numpy as _np
    if isinstance(x, _np.bool_):
        return z3.BoolVal(bool(x))
    if x is None:
        return z3.BoolVal(False)
    raise Undecided(f"cannot convert {type(x).__name__} to Bool")


def _numkind(x):
    """'int' | 'real' | 'complex' | 'bool' | None"""
    if isinstance(x, SV):
        return x.kind
    if isinstance(x, SC):
        return "complex"
    if isinstance(x, SOpt):
        return "int"
    if isinstance(x, bool):
        return "bool"
    if isinstance(x, int):
        return "int"
    if isinstance(x, (float, Fraction)):
        return "real"
    if isinstance(x, complex):
        return "complex"
    import numpy as _np
    if isinstance(x, _np.generic):
        if isinstance(x, _np.bool_):
            return "bool"
        if isinstance(x, _np.integer):
            return "int"
        if isinstance(x, _np.floating):
            return "real"
        if isinstance(x, _np.complexfloating):
            return "complex"
    return None


def concrete_value(x):
    """If x is an SV whose term is a numeral, return the python value, else None."""
    if isinstance(x, SV):
        t = z3.simplify(x.t)
        if z3.is_int_value(t):
            return t.as_long()
        if z3.is_rational_value(t):
            return Fraction(t.numerator_as_long(), t.denominator_as_long())
        if z3.is_true(t):
            return True
        if z3.is_false(t):
            return False
    return None


# ----------------------------------------------------------------------------- scalars

class SV:
    """Symbolic scalar of sort Int / Real / Bool."""
    __slots__ = ("t", "kind")
    __array_priority__ = 1000

    def __init__(self, t):
        self.t = t
        s = t.sort()
        if s == z3.IntSort():
            self.kind = "int"
        elif s == z3.RealSort():
            self.kind = "real"
        elif s == z3.BoolSort():
            self.kind = "bool"
        else:
            raise TypeError(f"bad sort {s}")

    # -- truth: this is where paths fork
    def __bool__(self):
        return _st.ENGINE.branch(z3bool(self))

    def __index__(self):
        if self.kind != "int":
            if self.kind == "bool":
                return int(bool(self))
            raise TypeError("real used as index")
        return _st.ENGINE.concretize_int(self.t)

    def __int__(self):
        if self.kind == "int":
            return self.__index__()
        raise Undecided("int() of symbolic real")

    def __float__(self):
        c = concrete_value(self)
        if c is not None:
            return float(c)
        raise Undecided("float() of a symbolic value (value-dependent numeric conversion)")

    def __complex__(self):
        c = concrete_value(self)
        if c is not None:
            return complex(c)
        raise Undecided("complex() of a symbolic value")

    __hash__ = None  # symbolic values cannot be dict keys / set members

    def __repr__(self):
        return f"SV({self.t})"

    # -- arithmetic
    def _bin(self, other, op, swap=False):
        ko = _numkind(other)
        if ko is None:
            import numpy as _np
            if isinstance(other, _np.ndarray):
                out = _np.empty(other.shape, dtype=object)
                for i in _np.ndindex(other.shape):
                    out[i] = self._bin(other[i], op, swap)
                return out
            return NotImplemented
        if ko == "complex":
            a, b = SC.lift(self), SC.lift(other)
            if swap:
                a, b = b, a
            return getattr(a, op)(b)
        a, b = (other, self) if swap else (self, other)
        ka, kb = _numkind(a), _numkind(b)
        isint = ka in ("int", "bool") and kb in ("int", "bool")
        if op == "__add__":
            return SV(z3int(a) + z3int(b)) if isint else SV(z3real(a) + z3real(b))
        if op == "__sub__":
            return SV(z3int(a) - z3int(b)) if isint else SV(z3real(a) - z3real(b))
        if op == "__mul__":
            return SV(z3int(a) * z3int(b)) if isint else SV(z3real(a) * z3real(b))
        if op == "__truediv__":
            den = z3real(b)
            _st.ENGINE.check_div(den)
            return SV(z3real(a) / den)
        if op in ("__floordiv__", "__mod__"):
            if not isint:
                if op == "__mod__":
                    return real_mod(a, b)
                raise Undecided("floor division on reals")
            return int_divmod(a, b)[0 if op == "__floordiv__" else 1]
        if op == "__pow__":
            return power(a, b)
        raise Undecided(op)

    def __add__(self, o): return self._bin(o, "__add__")
    def __radd__(self, o): return self._bin(o, "__add__", True)
    def __sub__(self, o): return self._bin(o, "__sub__")
    def __rsub__(self, o): return self._bin(o, "__sub__", True)
    def __mul__(self, o): return self._bin(o, "__mul__")
    def __rmul__(self, o): return self._bin(o, "__mul__", True)
    def __truediv__(self, o): return self._bin(o, "__truediv__")
    def __rtruediv__(self, o): return self._bin(o, "__truediv__", True)
    def __floordiv__(self, o): return self._bin(o, "__floordiv__")
    def __rfloordiv__(self, o): return self._bin(o, "__floordiv__", True)
    def __mod__(self, o): return self._bin(o, "__mod__")
    def __rmod__(self, o): return self._bin(o, "__mod__", True)
    def __pow__(self, o): return self._bin(o, "__pow__")
    def __rpow__(self, o): return self._bin(o, "__pow__", True)

    def __neg__(self):
        if self.kind == "bool":
            return SV(-z3int(self))
        return SV(-self.t)

    def __pos__(self):
        return self

    def __abs__(self):
        if self.kind == "bool":
            return SV(z3int(self))
        return SV(z3.If(self.t >= 0, self.t, -self.t))

    # -- comparisons
    def _cmp(self, other, op):
        if other is None:
            return False if op == "eq" else (True if op == "ne" else NotImplemented)
        if isinstance(other, SOpt):
            r = other._cmp(self, {"eq": "eq", "ne": "ne", "lt": "gt", "gt": "lt", "le": "ge", "ge": "le"}[op])
            return r
        ko = _numkind(other)
        if ko is None:
            return False if op == "eq" else (True if op == "ne" else NotImplemented)
        if ko == "complex":
            if op in ("eq", "ne"):
                return getattr(SC.lift(self), "__%s__" % op)(other)
            raise TypeError("ordering of complex")
        if self.kind == "bool" and ko == "bool" and op in ("eq", "ne"):
            a, b = z3bool(self), z3bool(other)
        elif self.kind in ("int", "bool") and ko in ("int", "bool"):
            a, b = z3int(self), z3int(other)
        else:
            a, b = z3real(self), z3real(other)
        if op == "eq": return SV(a == b)
        if op == "ne": return SV(a != b)
        if op == "lt": return SV(a < b)
        if op == "le": return SV(a <= b)
        if op == "gt": return SV(a > b)
        if op == "ge": return SV(a >= b)

    def __eq__(self, o): return self._cmp(o, "eq")
    def __ne__(self, o): return self._cmp(o, "ne")
    def __lt__(self, o): return self._cmp(o, "lt")
    def __le__(self, o): return self._cmp(o, "le")
    def __gt__(self, o): return self._cmp(o, "gt")
    def __ge__(self, o): return self._cmp(o, "ge")

    # -- logical (for specifications; python's and/or/not fork instead)
    def __and__(self, o):
        if self.kind == "bool":
            return SV(z3.And(self.t, z3bool(o)))
        raise Undecided("bitwise and on symbolic int")
    __rand__ = __and__

    def __or__(self, o):
        if self.kind == "bool":
            return SV(z3.Or(self.t, z3bool(o)))
        raise Undecided("bitwise or on symbolic int")
    __ror__ = __or__

    def __invert__(self):
        if self.kind == "bool":
            return SV(z3.Not(self.t))
        raise Undecided("bitwise not on symbolic int")

    # -- numpy ufunc protocol on object arrays calls these methods
    @property
    def real(self): return self
    @property
    def imag(self): return 0
    def conjugate(self): return self
    conj = conjugate
    def sqrt(self): return _st.ENGINE.math.sqrt(self)
    def exp(self): return _st.ENGINE.math.exp(self)
    def log(self): return _st.ENGINE.math.log(self)
    def sin(self): return _st.ENGINE.math.sin(self)
    def cos(self): return _st.ENGINE.math.cos(self)
    def tan(self): return _st.ENGINE.math.tan(self)
    def sinh(self): return _st.ENGINE.math.sinh(self)
    def cosh(self): return _st.ENGINE.math.cosh(self)
    def tanh(self): return _st.ENGINE.math.tanh(self)
    def arctan(self): return _st.ENGINE.math.arctan(self)
    def arccosh(self): return _st.ENGINE.math.arccosh(self)
    def arcsinh(self): return _st.ENGINE.math.arcsinh(self)
    def arccos(self): return _st.ENGINE.math.arccos(self)
    def arcsin(self): return _st.ENGINE.math.arcsin(self)
    def arctan2(self, other): return _st.ENGINE.math.arctan2(self, other)
    def sign(self):
        return SV(z3.If(z3real(self) > 0, z3.RealVal(1), z3.If(z3real(self) < 0, z3.RealVal(-1), z3.RealVal(0))))
    def __round__(self, n=None):
        if n is not None:
            raise Undecided("round(x, n) of symbolic value")
        if self.kind in ("int", "bool"):
            return SV(z3int(self))
        # python rounds half to even; the result is a fresh integer with its defining property (memoised per term)
        eng = _st.ENGINE
        t = self.t
        key = ("round", z3.simplify(t).sexpr())
        memo = eng.math.sqrt_memo
        if key in memo:
            return SV(memo[key])
        k = eng.fresh("rnd", z3.IntSort())
        half = z3.RealVal("1/2")
        d = t - z3.ToReal(k)
        eng.assume(z3.And(d <= half, d >= -half, z3.Implies(z3.Or(d == half, d == -half), k % 2 == 0)), note="round-half-even definition")
        memo[key] = k
        return SV(k)

    def __format__(self, spec):
        return sv_token(self, spec)


TOKEN_RE = __import__("re").compile(r"__sv(\d+)__")


def sv_token(x, spec=""):
    """text that stands for a symbolic number inside a string built by the code under test (str(x), f"{x}");
    the harness turns the tokens back into the proxies with sv_untoken"""
    c = concrete_value(x) if isinstance(x, SV) else None
    if c is not None:
        return format(c, spec)
    if spec:
        raise Undecided(f"format spec {spec!r} on a symbolic value")
    eng = _st.ENGINE
    toks = eng.__dict__.setdefault("tokens", [])
    toks.append(x)
    return f"__sv{len(toks) - 1}__"


def sv_untoken(text):
    """names for eval(): {token: proxy}"""
    toks = _st.ENGINE.__dict__.get("tokens", [])
    return {f"__sv{i}__": toks[i] for i in range(len(toks)) if f"__sv{i}__" in text}


def int_divmod(a, b):
    """python floor division / modulo on ints (exact)."""
    ta, tb = z3int(a), z3int(b)
    cb = concrete_value(SV(tb))
    if cb is not None:
        if cb == 0:
            raise ZeroDivisionError("integer division or modulo by zero")
        if cb > 0:
            return SV(ta / tb), SV(ta % tb)
        # python: q = floor(a/b), r = a - q*b (sign of b)
        q = -((-ta) / (-tb)) if False else None
    # general: fork on the sign of b (z3 div/mod are euclidean: remainder >= 0)
    sb = SV(tb)
    if sb == 0:
        raise ZeroDivisionError("integer division or modulo by zero")
    if sb > 0:
        return SV(ta / tb), SV(ta % tb)
    # b < 0: floor(a/b) = floor((-a)/(-b))
    q = (-ta) / (-tb)
    return SV(q), SV(ta - q * tb)


def real_mod(a, b):
    """np.mod / % on reals: a = q*b + r, q integer, 0 <= r < b for b > 0 (python sign rule)."""
    ta, tb = z3real(a), z3real(b)
    eng = _st.ENGINE
    key = ("mod", z3.simplify(ta).sexpr(), z3.simplify(tb).sexpr())
    memo = eng.math.sqrt_memo
    if key in memo:
        return SV(memo[key])
    q = eng.fresh("modq", z3.IntSort())
    r = eng.fresh("modr", z3.RealSort())
    eng.assume(ta == z3.ToReal(q) * tb + r, note="real-mod definition")
    eng.assume(z3.If(tb > 0, z3.And(r >= 0, r < tb), z3.And(r <= 0, r > tb)), note="real-mod range")
    eng.check_div(tb)
    memo[key] = r
    return SV(r)


def power(a, b):
    cb = b if isinstance(b, (int, float, Fraction)) and not isinstance(b, bool) else concrete_value(b) if isinstance(b, SV) else None
    import numpy as _np
    if isinstance(b, _np.generic):
        cb = b.item()
    if cb is not None:
        if isinstance(cb, float) and cb == int(cb):
            cb_i = int(cb)
            isfloat = True
        else:
            cb_i = cb
            isfloat = isinstance(cb, float)
        if isinstance(cb_i, int) and abs(cb_i) <= 8:
            if cb_i == 0:
                return 1.0 if isfloat else 1
            res = a
            for _ in range(abs(cb_i) - 1):
                res = res * a
            if cb_i < 0:
                res = 1 / res
            elif isfloat and _numkind(res) in ("int", "bool"):
                res = SV(z3real(res))
            return res
        if cb == Fraction(1, 2) or cb == 0.5:
            return _st.ENGINE.math.sqrt(a)
        if cb == -0.5:
            return 1 / _st.ENGINE.math.sqrt(a)
    raise Undecided(f"power with exponent {b!r}")


class SC:
    """Symbolic complex number: pair of Real terms (re, im)."""
    __slots__ = ("re", "im")
    __array_priority__ = 1001
    __hash__ = None

    def __init__(self, re, im):
        self.re = re if isinstance(re, z3.ExprRef) else z3real(re)
        self.im = im if isinstance(im, z3.ExprRef) else z3real(im)

    @staticmethod
    def lift(x):
        if isinstance(x, SC):
            return x
        if isinstance(x, complex):
            return SC(z3real(x.real), z3real(x.imag))
        import numpy as _np
        if isinstance(x, _np.complexfloating):
            return SC(z3real(float(x.real)), z3real(float(x.imag)))
        k = _numkind(x)
        if k is None:
            raise Undecided(f"cannot lift {type(x).__name__} to complex")
        return SC(z3real(x), z3.RealVal(0))

    def __repr__(self):
        return f"SC({z3.simplify(self.re)}, {z3.simplify(self.im)})"

    @property
    def real(self): return SV(self.re)
    @property
    def imag(self): return SV(self.im)
    def conjugate(self): return SC(self.re, -self.im)
    conj = conjugate

    def _lift_other(self, o):
        if _numkind(o) is None:
            return None
        return SC.lift(o)

    def _arr(self, o, name):
        import numpy as _np
        if isinstance(o, _np.ndarray):
            out = _np.empty(o.shape, dtype=object)
            for i in _np.ndindex(o.shape):
                out[i] = getattr(self, name)(o[i])
            return out
        return None

    def __add__(self, o):
        r = self._arr(o, "__add__")
        if r is not None: return r
        o = self._lift_other(o)
        if o is None: return NotImplemented
        return SC(self.re + o.re, self.im + o.im)
    __radd__ = __add__

    def __sub__(self, o):
        r = self._arr(o, "__sub__")
        if r is not None: return r
        o = self._lift_other(o)
        if o is None: return NotImplemented
        return SC(self.re - o.re, self.im - o.im)

    def __rsub__(self, o):
        r = self._arr(o, "__rsub__")
        if r is not None: return r
        o = self._lift_other(o)
        if o is None: return NotImplemented
        return SC(o.re - self.re, o.im - self.im)

    def __mul__(self, o):
        r = self._arr(o, "__mul__")
        if r is not None: return r
        o = self._lift_other(o)
        if o is None: return NotImplemented
        return SC(_mul(self.re, o.re) - _mul(self.im, o.im), _mul(self.re, o.im) + _mul(self.im, o.re))
    __rmul__ = __mul__

    def __truediv__(self, o):
        r = self._arr(o, "__truediv__")
        if r is not None: return r
        o = self._lift_other(o)
        if o is None: return NotImplemented
        den = _mul(o.re, o.re) + _mul(o.im, o.im)
        _st.ENGINE.check_div(den)
        n = self * o.conjugate()
        return SC(n.re / den, n.im / den)

    def __rtruediv__(self, o):
        r = self._arr(o, "__rtruediv__")
        if r is not None: return r
        o = self._lift_other(o)
        if o is None: return NotImplemented
        return o.__truediv__(self)

    def __neg__(self): return SC(-self.re, -self.im)
    def __pos__(self): return self

    def __pow__(self, b):
        return power(self, b)

    def __abs__(self):
        return _st.ENGINE.math.sqrt(SV(_mul(self.re, self.re) + _mul(self.im, self.im)))

    def __eq__(self, o):
        if o is None: return False
        o = self._lift_other(o)
        if o is None: return False
        return SV(z3.And(self.re == o.re, self.im == o.im))

    def __ne__(self, o):
        r = self.__eq__(o)
        return ~r if isinstance(r, SV) else (not r)

    def __bool__(self):
        return bool(SV(z3.Or(self.re != 0, self.im != 0)))

    def __complex__(self):
        a, b = concrete_value(SV(self.re)), concrete_value(SV(self.im))
        if a is not None and b is not None:
            return complex(float(a), float(b))
        raise Undecided("complex() of a symbolic value")

    def __float__(self):
        raise TypeError("can't convert complex to float")

    def exp(self): return _st.ENGINE.math.cexp(self)
    def sqrt(self): raise Undecided("complex sqrt")
    def angle(self): return _st.ENGINE.math.arctan2(SV(self.im), SV(self.re))


def _mul(a, b):
    """z3 real product with constant folding of 0/1 (keeps terms small)."""
    if z3.is_rational_value(a):
        if a.numerator_as_long() == 0:
            return z3.RealVal(0)
        if a.numerator_as_long() == 1 and a.denominator_as_long() == 1:
            return b
    if z3.is_rational_value(b):
        if b.numerator_as_long() == 0:
            return z3.RealVal(0)
        if b.numerator_as_long() == 1 and b.denominator_as_long() == 1:
            return a
    return a * b


# ----------------------------------------------------------------------------- Optional[int]

class SOpt:
    """Symbolic value that is either None or an int."""
    __slots__ = ("isnone", "val")
    __hash__ = None

    def __init__(self, isnone, val):
        self.isnone = isnone  # z3 Bool
        self.val = val        # z3 Int

    def __repr__(self):
        return f"SOpt({self.isnone}, {self.val})"

    def _asval(self):
        """use as an int: python raises TypeError on None"""
        if _st.ENGINE.branch(self.isnone):
            raise TypeError("unsupported operand: NoneType")
        return SV(self.val)

    def _cmp(self, other, op):
        if other is None:
            if op == "eq": return SV(self.isnone)
            if op == "ne": return SV(z3.Not(self.isnone))
            raise TypeError("ordering with None")
        if isinstance(other, SOpt):
            if op == "eq":
                return SV(z3.Or(z3.And(self.isnone, other.isnone),
                                z3.And(z3.Not(self.isnone), z3.Not(other.isnone), self.val == other.val)))
            if op == "ne":
                return ~self._cmp(other, "eq")
            return getattr(self._asval(), "__%s__" % op)(other._asval())
        if _numkind(other) is None:
            return False if op == "eq" else (True if op == "ne" else NotImplemented)
        if op == "eq":
            return SV(z3.And(z3.Not(self.isnone), SV(self.val)._cmp(other, "eq").t))
        if op == "ne":
            return SV(z3.Or(self.isnone, SV(self.val)._cmp(other, "ne").t))
        return getattr(self._asval(), "__%s__" % op)(other)

    def __eq__(self, o): return self._cmp(o, "eq")
    def __ne__(self, o): return self._cmp(o, "ne")
    def __lt__(self, o): return self._cmp(o, "lt")
    def __le__(self, o): return self._cmp(o, "le")
    def __gt__(self, o): return self._cmp(o, "gt")
    def __ge__(self, o): return self._cmp(o, "ge")
    def __add__(self, o): return self._asval() + o
    def __radd__(self, o): return o + self._asval()
    def __sub__(self, o): return self._asval() - o
    def __rsub__(self, o): return o - self._asval()
    def __mul__(self, o): return self._asval() * o
    def __rmul__(self, o): return o * self._asval()
    def __index__(self): return self._asval().__index__()
    def __bool__(self):
        if _st.ENGINE.branch(self.isnone):
            return False
        return bool(SV(self.val))


def isnone(x):
    """`x is None` (the instrumenter rewrites `is None` / `is not None` to this)."""
    if isinstance(x, SOpt):
        return SV(x.isnone)
    return x is None


# ----------------------------------------------------------------------------- generic ite / eq

def ite(c, a, b):
    """value-level if-then-else on wrapped values (no forking)."""
    if isinstance(c, bool):
        return a if c else b
    ct = z3bool(c)
    if z3.is_true(ct):
        return a
    if z3.is_false(ct):
        return b
    if a is b:
        return a
    if isinstance(a, tuple) and isinstance(b, tuple) and len(a) == len(b):
        return tuple(ite(c, x, y) for x, y in zip(a, b))
    if isinstance(a, SOpt) or isinstance(b, SOpt) or a is None or b is None:
        a2, b2 = to_opt(a), to_opt(b)
        return SOpt(z3.If(ct, a2.isnone, b2.isnone), z3.If(ct, a2.val, b2.val))
    ka, kb = _numkind(a), _numkind(b)
    if ka is None or kb is None:
        if a == b:
            return a
        raise Undecided(f"ite over non-numeric values {type(a).__name__}/{type(b).__name__}")
    if "complex" in (ka, kb):
        a2, b2 = SC.lift(a), SC.lift(b)
        return SC(z3.If(ct, a2.re, b2.re), z3.If(ct, a2.im, b2.im))
    if ka == "bool" and kb == "bool":
        return SV(z3.If(ct, z3bool(a), z3bool(b)))
    if ka in ("int", "bool") and kb in ("int", "bool"):
        return SV(z3.If(ct, z3int(a), z3int(b)))
    return SV(z3.If(ct, z3real(a), z3real(b)))


def to_opt(x):
    if isinstance(x, SOpt):
        return x
    if x is None:
        return SOpt(z3.BoolVal(True), z3.IntVal(0))
    return SOpt(z3.BoolVal(False), z3int(x))


def eqv(a, b):
    """structural equality of wrapped values as a z3 Bool (no forking)."""
    if isinstance(a, (tuple, list)) and isinstance(b, (tuple, list)):
        if len(a) != len(b):
            return z3.BoolVal(False)
        return z3.And([eqv(x, y) for x, y in zip(a, b)]) if a else z3.BoolVal(True)
    import numpy as _np
    if isinstance(a, _np.ndarray) and a.ndim == 0:          # 0-d object arrays hold one proxy
        a = a.item()
    if isinstance(b, _np.ndarray) and b.ndim == 0:
        b = b.item()
    r = (a == b)
    if isinstance(r, SV):
        return r.t
    import numpy as _np
    if isinstance(r, _np.ndarray):
        return z3.And([z3bool(x) for x in r.flat]) if r.size else z3.BoolVal(True)
    return z3.BoolVal(bool(r))


def And(*xs):
    xs = [x for x in (xs[0] if len(xs) == 1 and isinstance(xs[0], (list, tuple)) else xs)]
    ts = [z3bool(x) for x in xs]
    return SV(z3.And(ts)) if ts else SV(z3.BoolVal(True))


def Or(*xs):
    xs = [x for x in (xs[0] if len(xs) == 1 and isinstance(xs[0], (list, tuple)) else xs)]
    ts = [z3bool(x) for x in xs]
    return SV(z3.Or(ts)) if ts else SV(z3.BoolVal(False))


def Not(x):
    return SV(z3.Not(z3bool(x)))


def Implies(a, b):
    return SV(z3.Implies(z3bool(a), z3bool(b)))


def forall(f, sort="int", n=None):
    """forall(lambda k: body) -> SV Bool with a fresh bound variable per argument of f."""
    import inspect
    names = list(inspect.signature(f).parameters)
    eng = _st.ENGINE
    vs = [eng.fresh("q_" + nm, z3.IntSort() if sort == "int" else z3.RealSort(), bound=True) for nm in names]
    with eng.spec_mode():
        body = f(*[SV(v) for v in vs])
    return SV(z3.ForAll(vs, z3bool(body)))


def exists(f, sort="int"):
    import inspect
    names = list(inspect.signature(f).parameters)
    eng = _st.ENGINE
    vs = [eng.fresh("e_" + nm, z3.IntSort() if sort == "int" else z3.RealSort(), bound=True) for nm in names]
    with eng.spec_mode():
        body = f(*[SV(v) for v in vs])
    return SV(z3.Exists(vs, z3bool(body)))


# ----------------------------------------------------------------------------- symbolic lists

class SList:
    """Python list of symbolic length: (getter closure idx-term -> value, length).

    Mutable object (python reference semantics are kept by python itself); the getter closures
    are immutable, so a copy is O(1).  etype: 'int' | 'real' | 'bool' | 'optint' | 'complex'.
    """
    __hash__ = None

    def __init__(self, etype, get, length, name=None):
        self.etype = etype
        self._get = get
        self._len = length if isinstance(length, SV) else SV(z3int(length))
        self.birth = _st.ENGINE.tick() if _st.ENGINE else 0
        self.name = name

    # -- construction
    @staticmethod
    def fresh(name, etype, length=None, nonneg_len=True):
        eng = _st.ENGINE
        if length is None:
            length = SV(eng.fresh(name + "_len", z3.IntSort()))
            eng.assume(length.t >= 0, note="list length >= 0")
        get = fresh_getter(name, etype)
        return SList(etype, get, length, name=name)

    def copy(self):
        return SList(self.etype, self._get, self._len, name=self.name)

    def havoc(self):
        eng = _st.ENGINE
        self._get = fresh_getter("hv_" + (self.name or "list"), self.etype)
        n = eng.fresh("hv_" + (self.name or "list") + "_len", z3.IntSort())
        eng.assume(n >= 0)
        self._len = SV(n)

    def _mutating(self):
        _st.ENGINE.note_mutation(self)

    # -- access
    def at(self, i):
        """element at index term without bounds check (for specifications)."""
        it = i if isinstance(i, z3.ExprRef) else z3int(i)
        return self._get(it)

    def length(self):
        return self._len

    def __len__(self):
        # python insists on a real int here; the instrumenter replaces len() by vc_len
        return self._len.__index__()

    def _norm_index(self, i):
        """python index semantics: negative wraps, out of range -> IndexError (forks)."""
        if isinstance(i, slice):
            raise Undecided("slice of symbolic list")
        si = i if isinstance(i, (SV, SOpt)) else SV(z3int(i))
        if isinstance(si, SOpt):
            si = si._asval()
        n = self._len
        eng = _st.ENGINE
        if eng._spec and eng.guard_frames:
            # inside a pure summary (comprehension body): record the in-bounds side condition
            eng.guard_frames[-1].append((z3.And(si.t >= -n.t, si.t < n.t), IndexError("list index out of range")))
            return SV(z3.If(si.t < 0, si.t + n.t, si.t))
        if si < 0:
            si = si + n
            if si < 0:
                raise IndexError("list index out of range")
        elif si >= n:
            raise IndexError("list index out of range")
        return si

    def __getitem__(self, i):
        if isinstance(i, slice):
            return self._slice(i)
        si = self._norm_index(i)
        return self._get(si.t)

    def _slice(self, s):
        if s.step not in (None, 1):
            raise Undecided("stepped slice of symbolic list")
        n = self._len
        lo = 0 if s.start is None else s.start
        hi = n if s.stop is None else s.stop
        lo = SV(z3int(lo)); hi = SV(z3int(hi))
        lo = ite(lo < 0, ite(lo + n < 0, 0, lo + n), ite(lo > n, n, lo))
        hi = ite(hi < 0, ite(hi + n < 0, 0, hi + n), ite(hi > n, n, hi))
        lo = SV(z3int(lo)); hi = SV(z3int(hi))
        ln = ite(hi > lo, hi - lo, 0)
        g = self._get
        lot = lo.t
        return SList(self.etype, lambda i: g(i + lot), ln)

    def __setitem__(self, i, v):
        si = self._norm_index(i)
        self._mutating()
        old = self._get
        it = si.t
        vv = self._coerce(v)
        self._get = lambda j: ite(SV(j == it), vv, old(j))

    def _coerce(self, v):
        if self.etype == "optint":
            return to_opt(v)
        if self.etype == "int":
            if isinstance(v, SOpt) or v is None:
                # python lists are heterogeneous: the list becomes a list of Optional[int]
                old = self._get
                self._get = lambda j: to_opt(old(j))
                self.etype = "optint"
                return to_opt(v)
            return SV(z3int(v))
        if self.etype == "real":
            return SV(z3real(v))
        if self.etype == "bool":
            return SV(z3bool(v))
        if self.etype == "complex":
            return SC.lift(v)
        return v

    def append(self, v):
        self._mutating()
        old = self._get
        n = self._len.t
        vv = self._coerce(v)
        self._get = lambda j: ite(SV(j == n), vv, old(j))
        self._len = SV(n + 1)

    def extend(self, other):
        self._mutating()
        o = as_slist(other, self.etype)
        a, b = self._get, o._get
        n = self._len.t
        self._get = lambda j: ite(SV(j < n), a(j), b(j - n))
        self._len = SV(n + o._len.t)

    def __iadd__(self, other):
        self.extend(other)
        return self

    def __add__(self, other):
        r = self.copy()
        r.birth = _st.ENGINE.tick()
        r.extend(other)
        return r

    def __radd__(self, other):
        r = as_slist(other, self.etype).copy()
        r.birth = _st.ENGINE.tick()
        r.extend(self)
        return r

    def __mul__(self, k):
        raise Undecided("list repetition of symbolic list")

    def pop(self, i=-1):
        n = self._len
        if n == 0:
            raise IndexError("pop from empty list")
        si = self._norm_index(i)
        self._mutating()
        v = self._get(si.t)
        old = self._get
        it = si.t
        self._get = lambda j: ite(SV(j < it), old(j), old(j + 1))
        self._len = SV(n.t - 1)
        return v

    def insert(self, i, v):
        n = self._len
        si = SV(z3int(i))
        si = ite(si < 0, ite(si + n < 0, 0, si + n), ite(si > n, n, si))
        self._mutating()
        old = self._get
        it = z3int(si)
        vv = self._coerce(v)
        self._get = lambda j: ite(SV(j < it), old(j), ite(SV(j == it), vv, old(j - 1)))
        self._len = SV(n.t + 1)

    def __contains__(self, x):
        # python coerces the result with bool(): forks on the existential
        return bool(self.contains(x))

    def contains(self, x):
        """spec-level membership (no fork): exists j. 0<=j<len and self[j]==x"""
        eng = _st.ENGINE
        j = eng.fresh("in_j", z3.IntSort(), bound=True)
        body = z3.And(j >= 0, j < self._len.t, eqv(self._get(j), x))
        return SV(z3.Exists([j], body))

    def index(self, x):
        raise Undecided("list.index on symbolic list")

    def count(self, x):
        raise Undecided("list.count on symbolic list")

    def __iter__(self):
        # only reached when the instrumenter did not cut the loop: concretise the length
        n = self._len.__index__()
        for k in range(n):
            yield self._get(z3.IntVal(k))

    def __eq__(self, other):
        if isinstance(other, (SList, list, tuple)):
            o = as_slist(other, self.etype)
            eng = _st.ENGINE
            j = eng.fresh("eq_j", z3.IntSort(), bound=True)
            return SV(z3.And(self._len.t == o._len.t,
                             z3.ForAll([j], z3.Implies(z3.And(j >= 0, j < self._len.t), eqv(self._get(j), o._get(j))))))
        return False

    def __ne__(self, other):
        r = self.__eq__(other)
        return ~r if isinstance(r, SV) else (not r)

    def __bool__(self):
        return bool(self._len != 0)

    def __repr__(self):
        return f"SList<{self.etype}>(len={self._len.t})"


def fresh_getter(name, etype):
    eng = _st.ENGINE
    if etype == "int":
        f = eng.fresh_fun(name, z3.IntSort(), z3.IntSort())
        return lambda i: SV(f(i))
    if etype == "real":
        f = eng.fresh_fun(name, z3.IntSort(), z3.RealSort())
        return lambda i: SV(f(i))
    if etype == "bool":
        f = eng.fresh_fun(name, z3.IntSort(), z3.BoolSort())
        return lambda i: SV(f(i))
    if etype == "optint":
        fn = eng.fresh_fun(name + "_isnone", z3.IntSort(), z3.BoolSort())
        fv = eng.fresh_fun(name + "_val", z3.IntSort(), z3.IntSort())
        return lambda i: SOpt(fn(i), fv(i))
    if etype == "complex":
        fr = eng.fresh_fun(name + "_re", z3.IntSort(), z3.RealSort())
        fi = eng.fresh_fun(name + "_im", z3.IntSort(), z3.RealSort())
        return lambda i: SC(fr(i), fi(i))
    if isinstance(etype, tuple) and etype[0] == "obj":
        # elements are read-only stub objects generated from the index: etype = ("obj", factory(name, index term))
        fac = etype[1]
        return lambda i: fac(name, i)
    raise Undecided(f"element type {etype}")


def as_slist(x, etype="int"):
    if isinstance(x, SList):
        return x
    if isinstance(x, SRange):
        return x.to_slist()
    if isinstance(x, (list, tuple)):
        vals = list(x)
        def get(i, vals=vals):
            if etype == "optint":
                r = to_opt(vals[-1]) if vals else SOpt(z3.BoolVal(True), z3.IntVal(0))
            else:
                r = vals[-1] if vals else 0
            for k in range(len(vals) - 2, -1, -1):
                r = ite(SV(i == k), to_opt(vals[k]) if etype == "optint" else vals[k], r)
            return r
        return SList(etype, get, SV(z3.IntVal(len(vals))))
    raise Undecided(f"cannot view {type(x).__name__} as symbolic list")


class SRange:
    """range(a, b) with symbolic bounds (step 1)."""
    def __init__(self, lo, hi):
        self.lo = SV(z3int(lo))
        self.hi = SV(z3int(hi))

    def length(self):
        return ite(self.hi > self.lo, self.hi - self.lo, 0)

    def to_slist(self):
        lo = self.lo.t
        return SList("int", lambda i: SV(i + lo), SV(z3int(self.length())))

    def __iter__(self):
        n = SV(z3int(self.length())).__index__()
        lo = self.lo
        for k in range(n):
            yield lo + k

    def __len__(self):
        return SV(z3int(self.length())).__index__()

    def __contains__(self, x):
        return bool(And(self.lo <= x, x < self.hi))

    def __getitem__(self, i):
        return self.to_slist()[i]


class SArrBase:
    """marker base for symbolic-shape arrays (see arr.py)"""
