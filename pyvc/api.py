"""Contract / proof-harness API used by the sidecar files in /verif/contracts.

A *proof* is a python function executed once per feasible path by the engine.  It builds the
symbolic pre-state, assumes the precondition, calls the REAL function (compiled from the current
/repo source by instrument.Loader), and states each postcondition clause as a named obligation.
A *contract* bundles pre/post so that the same text is (a) proved against the body and (b) used
at call sites of other proofs instead of the body (assert pre - havoc - assume post).
"""
from __future__ import annotations
import contextlib
import copy
import z3

from . import state as _st
from .sym import (SV, SC, SOpt, SList, SRange, SArrBase, Undecided, StopPath, ite, z3int, z3real, z3bool, And, Or, Not,
                  Implies, forall, exists, eqv, isnone, concrete_value, as_slist)
from .arr import SArr, Store, SIndexSet
from .engine import Engine
from .instrument import Loader, RT, LoopSpec

PROOFS = []          # registered Proof objects
CONTRACTS = {}       # "module:qualname" -> Contract
LOADER = None


def loader():
    global LOADER
    if LOADER is None:
        LOADER = Loader()
        from . import libmodels
        libmodels.install(LOADER)
    return LOADER


def reset_loader():
    global LOADER
    LOADER = None
    RT.loop_specs.clear()
    RT.extra_havoc.clear()


class Outcome:
    def __init__(self, value=None, exc=None):
        self.value = value
        self.exc = exc

    @property
    def returned(self):
        return self.exc is None

    def raised(self, *names):
        if self.exc is None:
            return False
        if not names:
            return True
        mro = [c.__name__ for c in type(self.exc).__mro__]
        return any(n in mro for n in names)

    def __repr__(self):
        return f"Outcome(value={self.value!r}, exc={self.exc!r})"


class Proof:
    def __init__(self, prop, target, fn, name=None, uses=(), bounded=False, finding=None, max_paths=None,
                 replay=None, tier_only=None, native=None):
        self.prop = prop if isinstance(prop, (list, tuple)) else [prop]
        self.target = target            # "dotted.module:Qual.name" - the function under contract
        self.fn = fn
        self.name = name or (target.split(":")[1] + ("" if not fn.__name__.strip("_") else "/" + fn.__name__.strip("_")))
        self.uses = list(uses)          # other targets whose contracts are used (stubs) - recorded in evidence
        self.finding = finding
        self.max_paths = max_paths
        self.replay = replay            # callable(model dict, obligation name, Result) -> native script text | None
        self.tier_only = tier_only
        self.native = native            # python source run under /venv/bin/python with I = concrete inputs from the counter-model


def proof(prop, target, name=None, uses=(), **kw):
    def deco(fn):
        PROOFS.append(Proof(prop, target, fn, name=name, uses=uses, **kw))
        return fn
    return deco


def loop_inv(key, inv=None, decreases=None, mode="inv", types=None):
    RT.loop_specs[key] = LoopSpec(inv=inv, decreases=decreases, mode=mode, types=types)


def loop_defs(key, defs, split=None):
    """map-loop over an index domain: defs(v) -> {"self.nmat": lambda done: (lambda i, j: value)}"""
    RT.loop_specs[key] = LoopSpec(mode="defs", defs=defs, split=split)


class H:
    """per-path harness context"""
    def __init__(self, eng, prf):
        self.eng = eng
        self.prf = prf
        self.prefix = prf.name
        self._patches = []
        eng.ghost = {}
        eng.inputs = []

    # ---- symbolic inputs
    def _reg(self, name, v):
        self.eng.inputs.append((name, v))
        return v

    def int(self, name, lo=None, hi=None):
        v = self._reg(name, self.eng.sym_int(name))
        if lo is not None:
            self.eng.assume(v >= lo)
        if hi is not None:
            self.eng.assume(v <= hi)
        return v

    def real(self, name): return self._reg(name, self.eng.sym_real(name))
    def bool(self, name): return self._reg(name, self.eng.sym_bool(name))
    def complex(self, name): return self._reg(name, self.eng.sym_complex(name))
    def optint(self, name): return self._reg(name, self.eng.sym_optint(name))
    def list(self, name, etype="int", length=None):
        v = SList.fresh(name, etype, length)
        self._reg(name, v.copy())
        return v

    def array(self, name, shape, dtype="complex"):
        v = SArr.fresh(name, shape, dtype)
        self._reg(name, v.copy())
        return v

    def module(self, dotted):
        return loader().load(dotted)

    def cls(self, dotted, name):
        return getattr(loader().load(dotted), name)

    def new(self, cls, **fields):
        """allocate an instance WITHOUT running __init__ (arbitrary object satisfying the stated fields)"""
        o = cls.__new__(cls)
        for k, v in fields.items():
            object.__setattr__(o, k, v)
        return o

    # ---- logic
    def require(self, cond):
        self.eng.assume(cond)

    def require_feasible(self, cond):
        self.eng.assume_feasible(cond)

    def ensure(self, name, cond, split=None, kind="post", **meta):
        self.eng.oblige(f"{self.prefix}/{name}", cond, split=split, kind=kind, meta=meta)

    def lemma(self, name, cond, **meta):
        """intermediate assertion: an obligation of its own (proved under the current path condition), then available
        as a hypothesis to the obligations that follow on this path"""
        self.ensure("lemma." + name, cond, **meta)
        self.eng.assume(z3bool(cond), note="lemma " + name)

    def cover(self, name, extra=None):
        self.eng.cover(f"{self.prefix}/{name}", extra)

    def trust(self, what):
        self.eng.trust(what)

    def ghost(self, **kw):
        self.eng.ghost.update(kw)

    # ---- calling the real code
    def call(self, fn, *args, **kw):
        try:
            return Outcome(value=fn(*args, **kw))
        except Exception as e:      # exceptions of the code under test (engine signals are BaseException)
            return Outcome(exc=e)

    # ---- modular calls
    @contextlib.contextmanager
    def stubbed(self, owner, attr, replacement):
        """replace owner.attr by a contract stub for the duration of the block"""
        had = attr in vars(owner) if hasattr(owner, "__dict__") else False
        old = getattr(owner, attr, None)
        setattr(owner, attr, replacement)
        try:
            yield
        finally:
            if had or not isinstance(owner, type):
                setattr(owner, attr, old)
            else:
                delattr(owner, attr)

    def snapshot(self, x):
        return snapshot(x)


def snapshot(x):
    """old(x): proxies are immutable-by-closure so a shallow copy suffices; python containers deep-copied"""
    if isinstance(x, SList):
        return x.copy()
    if isinstance(x, SArr):
        return x.copy()
    if isinstance(x, (SV, SC, SOpt)) or x is None or isinstance(x, (int, float, complex, str, bool)):
        return x
    if isinstance(x, list):
        return [snapshot(e) for e in x]
    if isinstance(x, tuple):
        return tuple(snapshot(e) for e in x)
    if isinstance(x, dict):
        return {k: snapshot(v) for k, v in x.items()}
    import numpy as np
    if isinstance(x, np.ndarray):
        return x.copy()
    if hasattr(x, "__dict__"):
        o = x.__class__.__new__(x.__class__)
        for k, v in vars(x).items():
            object.__setattr__(o, k, snapshot(v))
        return o
    return x


# ------------------------------------------------------------------ registry extras
NATIVES = []               # bounded stand-ins / native sweeps (run under /venv/bin/python)
LEVELS = {}                # property -> evidence level ('proof' | 'other')
TRUSTED = {}               # property -> list of assumed contracts (static part)
EXPLAIN = {}               # property -> explanation text for evidence
ASSUMPTIONS_GLOBAL = {
    "A-real: IEEE-754 doubles are treated as mathematical reals; division is total (no ZeroDivisionError/inf/nan modelling)",
    "python ints are mathematical integers (exact: python ints are unbounded)",
    "engine semantics: CPython executes the instrumented real source on proxy values; rewrites R1-R7 of pyvc/instrument.py",
    "termination is proved only where a decreases clause is stated",
}


class Native:
    def __init__(self, prop, name, script, bound, timeout=300, thorough_only=False):
        self.prop = prop if isinstance(prop, (list, tuple)) else [prop]
        self.name = name
        self.script = script
        self.bound = bound
        self.timeout = timeout
        self.thorough_only = thorough_only


def native(prop, name, script, bound, timeout=300, thorough_only=False):
    NATIVES.append(Native(prop, name, script, bound, timeout, thorough_only))


def level(prop, lvl, explanation="", trusted=()):
    LEVELS[prop] = lvl
    EXPLAIN[prop] = explanation
    TRUSTED.setdefault(prop, [])
    TRUSTED[prop].extend(trusted)


def induct(h, name, P, n, base=0):
    """lemma by induction on k in [base, n]: obligations P(base) and P(k)->P(k+1) for base<=k<n,
    then forall k in [base,n]. P(k) is assumed (proved, not trusted)."""
    eng = h.eng
    with eng.spec_mode():
        b = P(SV(z3.IntVal(base)) if isinstance(base, int) else base)
    nt = n.t if isinstance(n, SV) else z3.IntVal(n)
    bt = z3.IntVal(base) if isinstance(base, int) else base.t
    h.ensure(f"lemma.{name}/base", Implies(SV(bt <= nt), b), kind="lemma")
    k = eng.fresh("ind_" + name, z3.IntSort())
    with eng.spec_mode():
        pk = P(SV(k))
        pk1 = P(SV(k + 1))
    h.ensure(f"lemma.{name}/step", Implies(And(SV(k >= bt), SV(k < nt), pk), pk1), kind="lemma")
    q = eng.fresh("indq_" + name, z3.IntSort(), bound=True)
    with eng.spec_mode():
        pq = P(SV(q))
    eng.assume(z3.ForAll([q], z3.Implies(z3.And(q >= bt, q <= nt), z3bool(pq))))
