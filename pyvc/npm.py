"""Proxy-aware numpy facade.

Fixed-size arrays holding symbolic scalars are *real* numpy object arrays (numpy's own
indexing, broadcasting, matmul, transpose run unchanged); only the scalar functions are
dispatched to the proxies.  Symbolic-shape arrays are arr.SArr.  Everything not overridden
here falls through to real numpy (concrete data only).
"""
from __future__ import annotations
import types
import numpy as _np
import z3

from . import state as _st
from .sym import (SV, SC, SOpt, SList, SRange, SArrBase, Undecided, ite, z3int, z3real, z3bool, And, Or, Not,
                  _numkind, concrete_value, eqv)
from .arr import SArr, Store, SIndexSet, IndexVec, _dim


def _has_sym(x):
    if isinstance(x, (SV, SC, SOpt, SList, SArrBase, SRange)):
        return True
    if isinstance(x, _np.ndarray):
        return x.dtype == object
    if isinstance(x, (list, tuple)):
        return any(_has_sym(e) for e in x)
    return False


class OArr(_np.ndarray):
    """object ndarray whose comparisons stay elementwise-symbolic (numpy would truth-test every element
    to build a bool array, i.e. fork once per element)"""
    def _cmp(self, other, op):
        a = _np.asarray(self)
        o = other
        if isinstance(o, (SArrBase,)):
            return NotImplemented
        bb = _np.broadcast_arrays(a, _np.asarray(o, dtype=object) if not isinstance(o, _np.ndarray) else o)
        out = _np.empty(bb[0].shape, dtype=object)
        for i in _np.ndindex(bb[0].shape):
            out[i] = getattr(_operator, op)(bb[0][i], bb[1][i])
        return out.view(OArr)

    def __lt__(self, o): return self._cmp(o, "lt")
    def __le__(self, o): return self._cmp(o, "le")
    def __gt__(self, o): return self._cmp(o, "gt")
    def __ge__(self, o): return self._cmp(o, "ge")
    def __eq__(self, o): return self._cmp(o, "eq")
    def __ne__(self, o): return self._cmp(o, "ne")
    __hash__ = None

    def _part(self, which):
        a = _np.asarray(self)
        out = _np.empty(a.shape, dtype=object)
        for i in _np.ndindex(a.shape):
            e = a[i]
            out[i] = getattr(e, which) if not isinstance(e, (int, float)) else (e if which == "real" else 0.0)
        return out.view(OArr)

    # numpy's .real / .imag of an object array are (self, zeros): elementwise parts instead
    real = property(lambda self: self._part("real"))
    imag = property(lambda self: self._part("imag"))


import operator as _operator


def _oarr(x):
    """to object ndarray (OArr view)"""
    if isinstance(x, _np.ndarray):
        a = x if x.dtype == object else x.astype(object)
    else:
        a = _np.array(x, dtype=object)
    return a.view(OArr)


def _elementwise(fname, pyf):
    """ufunc wrapper: proxies -> method, object arrays -> elementwise, SArr -> map, else numpy"""
    real = getattr(_np, fname)

    def f(x, *a, **k):
        if isinstance(x, (SV, SC)):
            return pyf(x)
        if isinstance(x, SOpt):
            return pyf(x._asval())
        if isinstance(x, SArr):
            return x.map(pyf)
        if isinstance(x, _np.ndarray) and x.dtype == object:
            out = _np.empty(x.shape, dtype=object)
            for i in _np.ndindex(x.shape):
                out[i] = f(x[i])
            return out
        if isinstance(x, (list, tuple)) and _has_sym(x):
            return f(_oarr(x))
        if _st.ENGINE is not None and fname == "sqrt" and isinstance(x, (int, float, _np.integer, _np.floating)) and not isinstance(x, bool) and x > 0:
            # A-real: the square root of a concrete non-square number is kept exact (algebraic), not rounded
            r_ = float(x) ** 0.5
            if abs(r_ - round(r_)) > 1e-12 or round(r_) ** 2 != x:
                return pyf(x)
        if _st.ENGINE is not None and fname in ("sin", "cos", "exp") and isinstance(x, (float, complex, _np.floating, _np.complexfloating)):
            # A-real: a float within 1e-12 of a non-zero multiple of pi/4 denotes that multiple exactly
            ang = x if fname != "exp" else (x.imag if isinstance(x, (complex, _np.complexfloating)) and x.real == 0 else None)
            if ang is not None and ang != 0:
                q = round(float(ang) / (_np.pi / 4))
                if q != 0 and abs(float(ang) - q * _np.pi / 4) <= 1e-12 * max(1.0, abs(float(ang))):
                    if fname == "exp":
                        return pyf(SC(z3.RealVal(0), z3real(float(ang))))
                    return pyf(float(ang))
        if isinstance(x, (bool, int, float, complex, _np.generic)) and not a and not k:
            return real(x)
        return real(x, *a, **k)
    f.__name__ = fname
    return f


def _m(name):
    def g(x):
        return getattr(_st.ENGINE.math, name)(x)
    return g


def _conj(x):
    if isinstance(x, (SV, SC)):
        return x.conjugate()
    return _np.conj(x)


def _real(x):
    if isinstance(x, (SV, SC)):
        return x.real
    if isinstance(x, SArr):
        return x.real
    if isinstance(x, _np.ndarray) and x.dtype == object:
        out = _np.empty(x.shape, dtype=object)
        for i in _np.ndindex(x.shape):
            out[i] = _real(x[i])
        return out
    return _np.real(x)


def _imag(x):
    if isinstance(x, (SV, SC)):
        return x.imag
    if isinstance(x, SArr):
        return x.imag
    if isinstance(x, _np.ndarray) and x.dtype == object:
        out = _np.empty(x.shape, dtype=object)
        for i in _np.ndindex(x.shape):
            out[i] = _imag(x[i])
        return out
    return _np.imag(x)


def _abs1(x):
    return abs(x)


def _angle1(z):
    if isinstance(z, SC):
        return z.angle()
    if isinstance(z, SV):
        return ite(z >= 0, 0.0, _np.pi)
    return _np.angle(z)


def _sign1(x):
    if isinstance(x, SV):
        return x.sign()
    return _np.sign(x)


class _NP(types.ModuleType):
    def __getattr__(self, a):
        v = getattr(_np, a)
        if isinstance(v, (types.FunctionType, types.BuiltinFunctionType)) or type(v).__name__ in ("ufunc", "_ArrayFunctionDispatcher"):
            if _st.ENGINE is not None:
                return _wrap_result(v)
        return v


NP = _NP("numpy")

for _n, _f in [("exp", _m("exp")), ("sqrt", _m("sqrt")), ("sin", _m("sin")), ("cos", _m("cos")), ("tan", _m("tan")),
               ("sinh", _m("sinh")), ("cosh", _m("cosh")), ("tanh", _m("tanh")), ("arctan", _m("arctan")),
               ("arccosh", _m("arccosh")), ("arcsinh", _m("arcsinh")), ("arccos", _m("arccos")), ("arcsin", _m("arcsin")),
               ("arctanh", _m("arctanh")), ("log", _m("log")),
               ("conj", _conj), ("conjugate", _conj), ("abs", _abs1), ("absolute", _abs1), ("angle", _angle1),
               ("sign", _sign1)]:
    setattr(NP, _n, _elementwise(_n, _f))
NP.real = _real
NP.imag = _imag


def _arctan2(y, x):
    if _has_sym(y) or _has_sym(x):
        if isinstance(y, _np.ndarray) or isinstance(x, _np.ndarray):
            yy, xx = _np.broadcast_arrays(_oarr(y), _oarr(x))
            out = _np.empty(yy.shape, dtype=object)
            for i in _np.ndindex(yy.shape):
                out[i] = _arctan2(yy[i], xx[i])
            return out
        return _st.ENGINE.math.arctan2(y, x)
    return _np.arctan2(y, x)
NP.arctan2 = _arctan2


def _mod(x, m):
    if _has_sym(x) or _has_sym(m):
        if isinstance(x, _np.ndarray):
            out = _np.empty(x.shape, dtype=object)
            for i in _np.ndindex(x.shape):
                out[i] = x[i] % m
            return out
        return x % m
    return _np.mod(x, m)
NP.mod = _mod


def _array(x, dtype=None, **kw):
    dtype = _canon_dtype(dtype)
    if isinstance(x, SArr):
        return x.copy()
    if isinstance(x, (SList, SRange)):
        sl = x if isinstance(x, SList) else x.to_slist()
        dt = {"int": "int", "real": "real", "complex": "complex", "bool": "bool"}.get(sl.etype)
        if dt is None:
            raise Undecided("np.array of a list of optional ints")
        g = sl._get
        return SArr(Store(lambda idx: g(idx[0]), (_dim(sl.length()),), dt))
    if _has_sym(x):
        return _np.array(x, dtype=object).view(OArr)
    if _st.ENGINE is not None and dtype in (complex, float, None, _np.complex128, _np.float64) and kw.get("ndmin") is None:
        a = _np.array(x, dtype=dtype, **kw)
        return a
    return _np.array(x, dtype=dtype, **kw)
NP.array = _array
NP.asarray = lambda x, dtype=None, **kw: x if isinstance(x, (SArr, _np.ndarray)) and dtype is None else _array(x, dtype)


def _symshape(shape):
    if isinstance(shape, (SV,)):
        return (shape,), True
    if isinstance(shape, (int, _np.integer)):
        return (int(shape),), False
    sh = tuple(shape)
    return sh, any(isinstance(s, SV) and concrete_value(s) is None for s in sh)


def _canon_dtype(dtype):
    from .instrument import _TYPE_BACK
    return _TYPE_BACK.get(dtype, dtype)


def _filled(shape, val, dtype):
    dtype = _canon_dtype(dtype)
    sh, sym = _symshape(shape)
    dt = "complex" if dtype in (complex, _np.complex128, "complex") else ("int" if dtype in (int, _np.int64, "int") else ("bool" if dtype is bool else "real"))
    if sym:
        v = {"complex": SC.lift(val), "real": SV(z3real(val)), "int": SV(z3int(val)), "bool": SV(z3bool(val))}[dt]
        return SArr(Store(lambda idx: v, sh, dt))
    sh = tuple(int(concrete_value(s)) if isinstance(s, SV) else int(s) for s in sh)
    if _st.ENGINE is not None:
        out = _np.empty(sh, dtype=object)
        pv = {"complex": complex(val), "real": float(val), "int": int(val), "bool": bool(val)}[dt]
        out.fill(pv)
        return out.view(OArr)
    return _np.full(sh, val, dtype=dtype)


NP.zeros = lambda shape, dtype=float, **kw: _filled(shape, 0, dtype)
NP.ones = lambda shape, dtype=float, **kw: _filled(shape, 1, dtype)
NP.empty = lambda shape, dtype=float, **kw: _filled(shape, 0, dtype)
NP.zeros_like = lambda a, dtype=None, **kw: _filled(a.shape, 0, dtype or (a.store.dtype if isinstance(a, SArr) else (complex if _np.iscomplexobj(a) else float)))


def _identity(n, dtype=float):
    dtype = _canon_dtype(dtype)
    if isinstance(n, SV) and concrete_value(n) is None:
        if dtype in (complex, _np.complex128):
            return SArr(Store(lambda idx: SC(z3.If(idx[0] == idx[1], z3.RealVal(1), z3.RealVal(0)), z3.RealVal(0)), (n, n), "complex"))
        return SArr(Store(lambda idx: SV(z3.If(idx[0] == idx[1], z3.RealVal(1), z3.RealVal(0))), (n, n), "real"))
    n = int(concrete_value(n)) if isinstance(n, SV) else int(n)
    if _st.ENGINE is not None:
        out = _np.empty((n, n), dtype=object)
        out.fill(0.0)
        for i in range(n):
            out[i, i] = 1.0
        return out.view(OArr)
    return _np.identity(n, dtype=dtype)
NP.identity = _identity


def _eye(n, m=None, k=0, dtype=float, **kw):
    if m is None and k == 0:
        return _identity(n, dtype)
    return _np.eye(n, m, k, dtype=dtype)
NP.eye = _eye


def _arange(*a, dtype=None, **kw):
    dtype = _canon_dtype(dtype)
    if any(isinstance(x, SV) and concrete_value(x) is None for x in a):
        if len(a) == 1:
            lo, hi = 0, a[0]
        elif len(a) == 2:
            lo, hi = a
        else:
            raise Undecided("arange with symbolic step")
        lot = z3int(lo)
        n = ite(SV(z3int(hi)) > SV(lot), SV(z3int(hi) - lot), 0)
        return SArr(Store(lambda idx: SV(idx[0] + lot), (_dim(SV(z3int(n))),), "int"))
    a = [int(concrete_value(x)) if isinstance(x, SV) else x for x in a]
    return _np.arange(*a, dtype=dtype, **kw)
NP.arange = _arange


def _is_arange(a):
    return isinstance(a, SArr) and a.ndim == 1 and getattr(a.store, "name", None) is None


def _delete(arr, obj, axis=None):
    if isinstance(arr, SArr):
        # only the idiom np.delete(np.arange(n), k | (k, l)) is modelled
        n = arr.shape[0]
        idx = eng_fresh_probe(arr)
        if idx is None:
            raise Undecided("np.delete on a symbolic array other than arange(n)")
        ex = list(obj) if isinstance(obj, (tuple, list)) else [obj]
        return SIndexSet(n, ex)
    if _has_sym(obj):
        ex = list(obj) if isinstance(obj, (tuple, list)) else [obj]
        if isinstance(arr, _np.ndarray) and arr.ndim == 1 and arr.dtype != object and _np.array_equal(arr, _np.arange(len(arr))):
            return SIndexSet(len(arr), ex)
        raise Undecided("np.delete with symbolic index on a concrete array")
    return _np.delete(arr, obj, axis)


def eng_fresh_probe(arr):
    """is `arr` the array arange(n)?  (checked semantically at a fresh index)"""
    eng = _st.ENGINE
    p = z3.Int("__probe_i")
    v = arr.reader()((p,))
    if isinstance(v, SV) and v.kind == "int" and z3.is_true(z3.simplify(v.t == p)):
        return True
    return None
NP.delete = _delete


def _copy(a, **kw):
    if isinstance(a, SArr):
        return a.copy()
    if isinstance(a, (SV, SC)):
        return a
    return _np.copy(a)
NP.copy = _copy


def _transpose(a, axes=None):
    if isinstance(a, SArr):
        return a.transpose() if axes is None else a.transpose(*axes)
    return _np.transpose(a, axes)
NP.transpose = _transpose


def _concatenate(parts, axis=0, **kw):
    parts = list(parts)
    if any(isinstance(p, SArr) for p in parts):
        if len(parts) != 2:
            raise Undecided("concatenate of != 2 symbolic arrays")
        a, b = parts
        if not (isinstance(a, SArr) and isinstance(b, SArr)):
            raise Undecided("concatenate mixing symbolic and concrete arrays")
        ra, rb = a.reader(), b.reader()
        sa, sb = a.shape, b.shape
        nd = a.ndim
        if nd != b.ndim or axis >= nd:
            raise Undecided("concatenate rank mismatch")
        na = sa[axis]
        nat = na.t if isinstance(na, SV) else z3.IntVal(na)
        nb = sb[axis]
        tot = (na if isinstance(na, SV) else SV(z3.IntVal(na))) + (nb if isinstance(nb, SV) else SV(z3.IntVal(nb)))
        sh = tuple(_dim(tot) if k == axis else sa[k] for k in range(nd))
        from .arr import _join_dtype

        def get(idx):
            i = idx[axis]
            idx2 = tuple(z3.simplify(i - nat) if k == axis else idx[k] for k in range(nd))
            return ite(SV(i < nat), ra(idx), rb(idx2))
        return SArr(Store(get, sh, _join_dtype(a.store.dtype, b.store.dtype)))
    if any(_has_sym(p) for p in parts):
        return _np.concatenate([_oarr(p) for p in parts], axis=axis)
    return _np.concatenate(parts, axis=axis, **kw)
NP.concatenate = _concatenate


def _reshape(a, shape, **kw):
    if isinstance(a, SArr):
        return a.reshape(shape)
    if isinstance(a, (SList, SRange)):
        sl = a if isinstance(a, SList) else a.to_slist()
        sh = tuple(shape)
        if sh == (-1, 1):
            return IndexVec(sl, "col")
        if sh == (1, -1):
            return IndexVec(sl, "row")
        raise Undecided("reshape of symbolic list")
    return _np.reshape(a, shape)
NP.reshape = _reshape


def _all(x, *a, **k):
    if isinstance(x, (SV,)):
        return x
    if isinstance(x, _np.ndarray) and x.dtype == object:
        return And(*[z3bool(e) for e in x.flat]) if x.size else True
    if isinstance(x, (list, tuple)) and _has_sym(x):
        return And(*[z3bool(e) for e in _oarr(x).flat])
    if isinstance(x, SArr):
        idx, hyp = x.all_cells("all")
        return SV(z3.ForAll(idx, z3.Implies(hyp, z3bool(x.at(*idx)))))
    return _np.all(x, *a, **k)
NP.all = _all


def _any(x, *a, **k):
    if isinstance(x, SV):
        return x
    if isinstance(x, _np.ndarray) and x.dtype == object:
        return Or(*[z3bool(e) for e in x.flat]) if x.size else False
    if isinstance(x, (list, tuple)) and _has_sym(x):
        return Or(*[z3bool(e) for e in _oarr(x).flat])
    return _np.any(x, *a, **k)
NP.any = _any


def _gcd(a, b):
    """np.gcd with one symbolic integer and one concrete integer: the largest divisor of the concrete one dividing both"""
    if isinstance(b, SV) and not isinstance(a, SV):
        a, b = b, a
    if isinstance(a, SV):
        if isinstance(b, SV):
            raise Undecided("np.gcd of two symbolic integers")
        d = abs(int(b))
        if d == 0:
            return abs(a)
        divs = [g for g in range(1, d + 1) if d % g == 0]
        from .sym import z3int
        t = z3int(a)
        out = z3.IntVal(1)
        for g in divs[1:]:
            out = z3.If(t % g == 0, z3.IntVal(g), out)
        # one path per value of the gcd (a divisor of the concrete operand): keeps what follows linear
        return _st.ENGINE.concretize_int(out, cap=len(divs) + 1)
    return _np.gcd(a, b)
NP.gcd = _gcd


def _isclose1(a, b, rtol, atol):
    d = a - b
    return abs(d) <= atol + rtol * abs(b)


def _isclose(a, b, rtol=1e-05, atol=1e-08, **kw):
    if _has_sym(a) or _has_sym(b):
        if isinstance(a, _np.ndarray) or isinstance(b, _np.ndarray) or isinstance(a, (list, tuple)) or isinstance(b, (list, tuple)):
            aa, bb = _np.broadcast_arrays(_oarr(a), _oarr(b))
            out = _np.empty(aa.shape, dtype=object)
            for i in _np.ndindex(aa.shape):
                out[i] = _isclose1(aa[i], bb[i], rtol, atol)
            return out
        return _isclose1(a, b, rtol, atol)
    return _np.isclose(a, b, rtol=rtol, atol=atol, **kw)
NP.isclose = _isclose


def _allclose(a, b, rtol=1e-05, atol=1e-08, **kw):
    if _has_sym(a) or _has_sym(b):
        return _all(_isclose(a, b, rtol, atol))
    return _np.allclose(a, b, rtol=rtol, atol=atol, **kw)
NP.allclose = _allclose


def _dot(a, b):
    if isinstance(a, SArr) or isinstance(b, SArr):
        raise Undecided("np.dot on symbolic-shape arrays")
    if _has_sym(a) or _has_sym(b):
        return _np.dot(_oarr(a), _oarr(b))
    return _np.dot(a, b)
NP.dot = _dot


def _diag(v, k=0):
    if _has_sym(v):
        v = _oarr(v)
        if v.ndim == 1:
            n = len(v)
            out = _np.empty((n, n), dtype=object)
            out.fill(0.0)
            for i in range(n):
                out[i, i] = v[i]
            return out
        return _np.array([v[i, i] for i in range(min(v.shape))], dtype=object)
    return _np.diag(v, k)
NP.diag = _diag


def _round(x, decimals=0, **kw):
    if _has_sym(x):
        if decimals >= 10:
            _st.ENGINE.trust("np.round(x, d>=10) of a symbolic value is treated as x (|error| <= 5e-11)")
            return x
        if decimals == 0 and isinstance(x, SV):
            # rounding to an integer: the fresh-integer model of SV.__round__ (|x - n| <= 1/2, ties to even)
            return SV(z3.ToReal(z3int(round(x)))) if hasattr(x, "__round__") else x
        raise Undecided("np.round of a symbolic value to few decimals")
    return _np.round(x, decimals, **kw)
NP.round = _round
NP.around = _round


def _trace(a, *args, **kw):
    if isinstance(a, SArr):
        a = a.materialize()
    if _has_sym(a):
        a = _oarr(a)
        tot = 0
        for k in range(min(a.shape[0], a.shape[1])):
            tot = tot + a[k, k]
        return tot
    return _np.trace(a, *args, **kw)
NP.trace = _trace


def _where(c, *a):
    if _has_sym(c) or any(_has_sym(x) for x in a):
        if len(a) != 2:
            raise Undecided("np.where(cond) without branches on symbolic data")
        cc, xx, yy = _np.broadcast_arrays(_oarr(c), _oarr(a[0]), _oarr(a[1]))
        out = _np.empty(cc.shape, dtype=object)
        for i in _np.ndindex(cc.shape):
            out[i] = ite(cc[i] if isinstance(cc[i], SV) else bool(cc[i]), xx[i], yy[i])
        return out
    return _np.where(c, *a)
NP.where = _where


def _iscomplexobj(x):
    if isinstance(x, SC):
        return True
    if isinstance(x, SV):
        return False
    if isinstance(x, SArr):
        return x.store.dtype == "complex"
    if isinstance(x, _np.ndarray) and x.dtype == object:
        return any(isinstance(e, (SC, complex)) for e in x.flat)
    return _np.iscomplexobj(x)
NP.iscomplexobj = _iscomplexobj


def _isscalar(x):
    if isinstance(x, (SV, SC, SOpt)):
        return True
    return _np.isscalar(x)
NP.isscalar = _isscalar


def _ndim(x):
    if isinstance(x, (SV, SC, SOpt)):
        return 0
    if isinstance(x, SArr):
        return x.ndim
    if isinstance(x, (SList, SRange)):
        return 1
    return _np.ndim(x)
NP.ndim = _ndim


def _shape(x):
    if isinstance(x, (SV, SC, SOpt)):
        return ()
    if isinstance(x, SArr):
        return x.shape
    return _np.shape(x)
NP.shape = _shape


class _Random(types.ModuleType):
    def __getattr__(self, a):
        def f(*args, **kw):
            raise Undecided(f"np.random.{a} without a library contract")
        return f


NP.random = _Random("numpy.random")


def _det_obj(A):
    n = A.shape[0]
    if n == 1:
        return A[0, 0]
    if n == 2:
        return A[0, 0] * A[1, 1] - A[0, 1] * A[1, 0]
    tot = 0
    for c in range(n):
        minor = _np.delete(_np.delete(A, 0, axis=0), c, axis=1)
        tot = tot + ((-1) ** c) * A[0, c] * _det_obj(minor)
    return tot


def _inv_obj(A):
    n = A.shape[0]
    d = _det_obj(A)
    out = _np.empty((n, n), dtype=object)
    for r in range(n):
        for c in range(n):
            minor = _np.delete(_np.delete(A, r, axis=0), c, axis=1)
            cof = ((-1) ** (r + c)) * (_det_obj(minor) if n > 1 else 1)
            out[c, r] = cof / d
    return out


class _Linalg(types.ModuleType):
    def __getattr__(self, a):
        real = getattr(_np.linalg, a)
        if a in ("det", "inv"):
            def g(A, *args, **kw):
                if _has_sym(A):
                    A = _oarr(A)
                    if A.ndim == 2 and A.shape[0] == A.shape[1] and A.shape[0] <= 4:
                        return _det_obj(A) if a == "det" else _inv_obj(A)
                    if A.ndim == 3 and A.shape[1] == A.shape[2] and A.shape[1] <= 4:
                        # a stack of matrices (numpy broadcasts over the leading axis)
                        if a == "det":
                            out = _np.empty((A.shape[0],), dtype=object)
                            for k_ in range(A.shape[0]):
                                out[k_] = _det_obj(A[k_])
                            return out.view(OArr)
                        out = _np.empty(A.shape, dtype=object)
                        for k_ in range(A.shape[0]):
                            out[k_] = _inv_obj(A[k_])
                        return out.view(OArr)
                    raise Undecided(f"np.linalg.{a} on a symbolic matrix larger than 4x4")
                return real(A, *args, **kw)
            return g

        if a == "norm":
            def nrm(A, *args, **kw):
                if _has_sym(A) and not args and not kw:
                    # Frobenius / 2-norm of a vector: sqrt(sum |x|^2)
                    tot = 0
                    for e in _oarr(A).ravel():
                        tot = tot + (e.re * e.re + e.im * e.im if isinstance(e, SC) else e * e)
                    tot = SV(tot) if not isinstance(tot, (SV, int, float)) else tot
                    return _st.ENGINE.math.sqrt(tot)
                if _has_sym(A):
                    raise Undecided("np.linalg.norm with ord / axis on symbolic data")
                return real(A, *args, **kw)
            return nrm

        def f(*args, **kw):
            if any(_has_sym(x) for x in args):
                raise Undecided(f"np.linalg.{a} on symbolic data without a library contract")
            return real(*args, **kw)
        return f


NP.linalg = _Linalg("numpy.linalg")


def _to_oarr(r):
    if isinstance(r, _np.ndarray) and r.dtype == object and not isinstance(r, OArr):
        return r.view(OArr)
    if isinstance(r, tuple):
        return tuple(_to_oarr(x) for x in r)
    return r


def _wrap_result(f):
    def g(*a, **k):
        return _to_oarr(f(*a, **k))
    g.__name__ = getattr(f, "__name__", "f")
    g.__wrapped__ = f
    for meth in ("outer", "reduce", "accumulate", "at", "reduceat"):      # ufunc methods
        if hasattr(f, meth):
            setattr(g, meth, _wrap_result(getattr(f, meth)) if meth != "at" else getattr(f, meth))
    return g


for _k, _v in list(vars(NP).items()):
    if isinstance(_v, types.FunctionType) and not _k.startswith("_"):
        setattr(NP, _k, _wrap_result(_v))


def module_for(full):
    if full == "numpy":
        return NP
    if full == "numpy.random":
        return NP.random
    if full == "numpy.linalg":
        return NP.linalg
    import importlib
    return importlib.import_module(full)
