"""Process-global handle on the running engine (proxy dunder methods need it)."""
ENGINE = None
