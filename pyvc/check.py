#!/usr/bin/env python3
"""pyvc check <property> [--tier quick|thorough]

Regenerates every obligation of the property from /repo's CURRENT working tree, discharges them,
replays counterexamples natively, consults known_findings.json, writes evidence/<id>.json.

exit 0  property held on everything checked (known findings are printed as KNOWN-FINDING lines)
exit 1  violation: `VIOLATION property=<id> replay=<path>` (a failed obligation, with a native
        replay when one was found, else ending in `no-failing-input-found`)
exit 2  undecided only (solver unknown / source left the supported subset) - never a violation
exit 3  checker crash / vacuity guard
"""
from __future__ import annotations
import argparse
import glob
import hashlib
import importlib.util
import json
import os
import re
import subprocess
import sys
import time
import traceback

VERIF = os.path.dirname(os.path.dirname(os.path.abspath(__file__)))
sys.path.insert(0, VERIF)
os.environ.setdefault("PYVC_WORK", os.path.join(VERIF, ".work"))
os.makedirs(os.environ["PYVC_WORK"], exist_ok=True)

import z3  # noqa: E402
from pyvc import api, solve  # noqa: E402
from pyvc.engine import Engine  # noqa: E402
from pyvc.sym import Undecided  # noqa: E402

VENV_PY = "/venv/bin/python"
REPO = os.environ.get("PYVC_REPO", "/repo")


def load_contracts(prop):
    files = sorted(glob.glob(os.path.join(VERIF, "contracts", "*.py")))
    for f in files:
        base = os.path.basename(f)
        if base.startswith("_"):
            continue
        txt = open(f).read()
        if prop not in txt:
            continue
        spec = importlib.util.spec_from_file_location("contracts." + base[:-3], f)
        m = importlib.util.module_from_spec(spec)
        sys.modules[spec.name] = m
        spec.loader.exec_module(m)
    return [p for p in api.PROOFS if prop in p.prop]


def load_findings():
    p = os.path.join(VERIF, "known_findings.json")
    if not os.path.exists(p):
        return []
    return json.load(open(p)).get("findings", [])


def run_native(script, args=(), timeout=600, env=None):
    e = dict(os.environ)
    e["PYTHONPATH"] = REPO + os.pathsep + VERIF
    e.pop("PYTHONHOME", None)
    if env:
        e.update(env)
    try:
        r = subprocess.run([VENV_PY, script, *args], capture_output=True, text=True, timeout=timeout, env=e, cwd=VERIF)
        return r.returncode, r.stdout, r.stderr
    except subprocess.TimeoutExpired:
        return 124, "", "timeout"


def scan_assumptions():
    """mechanical scan of the sidecars for assume/trust/admit"""
    out = []
    for f in sorted(glob.glob(os.path.join(VERIF, "contracts", "*.py"))):
        for i, line in enumerate(open(f), 1):
            if re.search(r"\b(h\.trust|\.assume\(|admit\(|trusted\()", line) and not line.strip().startswith("#"):
                out.append(f"{os.path.basename(f)}:{i}: {line.strip()[:120]}")
    return out


def main(argv=None):
    ap = argparse.ArgumentParser()
    ap.add_argument("prop")
    ap.add_argument("--tier", default=os.environ.get("VERIF_TIER", "quick"))
    ap.add_argument("--only", default=None, help="regex on proof names (debugging)")
    ap.add_argument("--workers", type=int, default=int(os.environ.get("PYVC_WORKERS", "16")))
    ap.add_argument("--no-evidence", action="store_true")
    ap.add_argument("-v", action="store_true")
    a = ap.parse_args(argv)
    prop = a.prop
    tier = a.tier if a.tier in ("quick", "thorough") else "quick"
    seed = int(os.environ.get("VERIF_SEED", "0") or 0)
    t0 = time.time()
    try:
        return _run(prop, tier, seed, a, t0)
    except SystemExit:
        raise
    except BaseException:
        traceback.print_exc()
        print(f"CHECKER-CRASH property={prop}")
        return 3


def _run(prop, tier, seed, a, t0):
    timeout_s = 10 if tier == "quick" else 60
    proofs = load_contracts(prop)
    if a.only:
        proofs = [p for p in proofs if re.search(a.only, p.name)]
    findings = [f for f in load_findings() if f["property"] == prop]
    open_findings = [f for f in findings if f.get("status", "open") == "open"]

    all_obls = []
    per_proof = {}
    undecided = []
    trusted = set()
    functions = {}
    crashed = []
    lib_raised = []
    stats = {"paths": 0, "branches": 0, "feas_checks": 0}
    ld = api.loader()
    for prf in proofs:
        if prf.tier_only == "thorough" and tier != "thorough":
            continue
        eng = Engine()
        if prf.max_paths:
            eng.max_paths = prf.max_paths
        h_holder = {}

        def body(prf=prf, eng=eng):
            h = api.H(eng, prf)
            prf.fn(h)
            eng.cover(prf.name + "/reach")
        tp = time.time()
        try:
            eng.explore(body, label=prf.name)
        except Undecided as e:
            eng.undecided.append((prf.name, str(e)))
        except Exception as e:
            msg = "".join(traceback.format_exception_only(type(e), e)).strip()
            frames = [f for f in traceback.extract_tb(e.__traceback__)
                      if f.filename.startswith(REPO + os.sep) or f.filename.startswith(os.path.join(VERIF, "contracts") + os.sep)]
            if frames and frames[-1].filename.startswith(REPO + os.sep):
                # the real code raised while the harness was setting up / inspecting it (outside h.call) with inputs that
                # are valid on the unchanged tree: a behaviour change of the code under contract, reported as a violation
                lib_raised.append((prf.name, msg, traceback.format_exc(), f"{os.path.relpath(frames[-1].filename, REPO)}:{frames[-1].lineno} ({frames[-1].name})"))
            else:
                crashed.append((prf.name, msg, traceback.format_exc()))
        for k in stats:
            stats[k] += eng.stats.get(k, 0)
        per_proof[prf.name] = {"target": prf.target, "paths": len(eng.paths), "obligations": len(eng.obligations),
                               "explore_s": round(time.time() - tp, 3), "covers": eng.covers,
                               "undecided": list(eng.undecided), "proof": prf}
        undecided.extend(eng.undecided)
        trusted |= eng.trusted
        all_obls.extend(eng.obligations)
        for tgt in [prf.target] + list(prf.uses):
            mod, _, qn = tgt.partition(":")
            try:
                seg, sha, ln = ld.source_segment(mod, qn)
                functions[tgt] = {"sha256": sha, "line": ln, "file": ld.path_of(mod)[0]}
            except BaseException as e:
                functions[tgt] = {"error": str(e)}

    if crashed:
        for n, msg, tb in crashed:
            print(f"proof harness crashed: {n}: {msg}")
            if a.v:
                print(tb)
        print(f"CHECKER-CRASH property={prop}")
        return 3

    # ---- witnesses of open findings first: obligations tagged with a reproduced open finding are the
    #      raw failing clauses (expected to fail) and are not sent to the solvers
    for f in open_findings:
        w = f.get("witness")
        if not w:
            continue
        rc, out, err = run_native(os.path.join(VERIF, w), timeout=300)
        if rc == 1 and "REPLAY-VIOLATION" in out:
            f["_reproduced"] = True
        elif rc == 0:
            f["_reproduced"] = False
        else:
            print(f"witness {w} of finding {f['id']} did not run (rc={rc}):\n{out[-500:]}\n{err[-1500:]}")
            print(f"CHECKER-CRASH property={prop}")
            return 3
    skip_ids = {f["id"] for f in open_findings if f.get("_reproduced")}
    skipped = [o for o in all_obls if o.meta.get("finding") in skip_ids]
    all_obls = [o for o in all_obls if o.meta.get("finding") not in skip_ids]

    # ---- discharge
    ts = time.time()
    results = solve.discharge(all_obls, timeout_s=timeout_s, workers=a.workers)
    solver_wall = time.time() - ts
    solver_cpu = sum(r.time for r in results)

    # ---- vacuity guards
    vac = []
    for name, info in per_proof.items():
        prf = info["proof"]
        if info["obligations"] == 0 and not info["undecided"]:
            vac.append(f"{name}: zero obligations")
        reach = [c for c in info["covers"] if c[0].endswith("/reach")]
        ok = False
        for _, f, _ in reach[:8]:
            if solve.check_sat(f, 5) != "unsat":
                ok = True
                break
        if not ok and not info["undecided"]:
            vac.append(f"{name}: no reachable normal exit (contradictory precondition?)")
    if vac:
        for v in vac:
            print("VACUITY:", v)
        print(f"CHECKER-CRASH property={prop} (vacuity guard)")
        return 3

    # ---- native parts: bounded stand-ins and known-finding witnesses
    bounded = []
    violations = []
    known_lines = []
    for n, msg, tb, where in lib_raised:
        d = os.path.join(VERIF, "replays", prop)
        os.makedirs(d, exist_ok=True)
        rp = os.path.join(d, re.sub(r"[^A-Za-z0-9_.-]+", "_", n)[:100] + "_harness-setup-raises.py")
        with open(rp, "w") as fh:
            fh.write(f"# obligation {n}/harness-setup-does-not-raise failed: the code under contract raised outside the call under test\n# " +
                     "\n# ".join(tb.strip().splitlines()[-30:]) + "\nimport sys\nprint('no-failing-input-found')\nsys.exit(1)\n")
        violations.append((f"{n}/harness-setup-does-not-raise", rp, f"the code under contract raised {msg[:160]} at {where}", False))
    for prf in proofs:
        pass
    natives = [n for n in api.NATIVES if prop in n.prop and (tier == "thorough" or not n.thorough_only)]
    for nt in natives:
        tn = time.time()
        args = [tier, str(seed), prop]
        rc, out, err = run_native(os.path.join(VERIF, nt.script), args, timeout=nt.timeout if tier == "quick" else nt.timeout * 6)
        info = {"name": nt.name, "script": nt.script, "bound": nt.bound, "rc": rc, "wall_s": round(time.time() - tn, 2)}
        m = re.search(r"^BOUNDED-RESULT (.*)$", out, re.M)
        if m:
            try:
                info.update(json.loads(m.group(1)))
            except Exception:
                pass
        bounded.append(info)
        for line in out.splitlines():
            if line.startswith("NATIVE-VIOLATION"):
                # NATIVE-VIOLATION finding=<id|-> replay=<path> <text>
                mm = re.match(r"NATIVE-VIOLATION finding=(\S+) replay=(\S+)\s*(.*)", line)
                fid, rp, txt = mm.groups()
                if fid != "-" and any(f["id"] == fid for f in open_findings):
                    known_lines.append((fid, txt))
                else:
                    violations.append((f"bounded:{nt.name}", rp, txt, True))
        if rc not in (0, 1) or (rc != 0 and "NATIVE-VIOLATION" not in out):
            # an exception that escapes from the LIBRARY while the stand-in drives it with inputs that are valid on the
            # unchanged tree is a behaviour change of the library, not a checker fault: the innermost frame that lies
            # in the repository or in /verif decides
            tb = err + "\n" + out
            frames = re.findall(r'File "([^"]+)", line (\d+), in (\S+)', tb)
            own = [f for f in frames if f[0].startswith(REPO + os.sep) or f[0].startswith(VERIF + os.sep)]
            last_err = [l for l in tb.splitlines() if re.match(r"^[A-Za-z_.]+(Error|Exception|Failure)\b", l)]
            if own and own[-1][0].startswith(REPO + os.sep) and last_err and rc != -9:
                d = os.path.join(VERIF, "replays", prop)
                os.makedirs(d, exist_ok=True)
                rp = os.path.join(d, f"bounded_{nt.name}_library_exception.py")
                txt = f"the library raised {last_err[-1][:200]} at {os.path.relpath(own[-1][0], REPO)}:{own[-1][1]} ({own[-1][2]}) while the stand-in ran"
                with open(rp, "w") as fh:
                    fh.write("# replay of a bounded stand-in violation: re-run " + nt.script + "\n# " + "\n# ".join(tb.strip().splitlines()[-40:]) +
                             "\nimport sys\nprint(%r)\nprint('REPLAY-VIOLATION')\nsys.exit(1)\n" % txt)
                violations.append((f"bounded:{nt.name}", rp, txt, True))
                continue
            print(f"bounded stand-in {nt.name} failed to run (rc={rc}):\n{err[-2000:]}")
            print(f"CHECKER-CRASH property={prop}")
            return 3

    for f in open_findings:
        if f.get("_reproduced"):
            known_lines.append((f["id"], f["what"]))

    # ---- classify solver results
    def _tagged_open(r):
        fid = r.meta.get("finding")
        return bool(fid and any(f["id"] == fid for f in open_findings))
    failed = [r for r in results if r.status == "sat"]
    unknown = [r for r in results if r.status == "unknown" and not _tagged_open(r)]
    discharged = [r for r in results if r.status == "unsat"]
    by_name = {}
    for r in failed:
        by_name.setdefault(r.name, []).append(r)
    for name, rs in by_name.items():
        r = rs[0]
        fid = r.meta.get("finding")
        if fid and any(f["id"] == fid and f.get("_reproduced", True) for f in open_findings):
            # raw clause of an open finding: expected to fail; reported through its witness
            continue
        rp = make_replay(prop, name, rs, per_proof, [o for o in all_obls if o.name == name])
        violations.append((name, rp[0], rp[1], rp[2]))

    # undecided obligations: fall back to the proof's native contract evaluation (witness battery); a
    # concrete failing input is a violation with a genuine replay, otherwise the obligation stays undecided
    unk_by_proof = {}
    for r in unknown:
        unk_by_proof.setdefault(r.meta.get("proof"), []).append(r)
    fallback = []
    for pn, rs in unk_by_proof.items():
        prf = per_proof.get(pn, {}).get("proof")
        if prf is None or prf.native is None:
            continue
        rp = make_replay(prop, rs[0].name, rs, per_proof, [])
        fallback.append({"proof": pn, "obligation": rs[0].name, "native_failing_input": rp[2]})
        if rp[2]:
            violations.append((rs[0].name, rp[0], "undecided by the solvers; " + rp[1], True))

    # obligations tagged as the raw clause of an open finding do not count as obligations
    def counts(r):
        fid = r.meta.get("finding")
        return not (fid and any(f["id"] == fid for f in open_findings))
    def shape_bounded(r):
        return bool(r.meta.get("bounded_shape"))
    n_obl = sum(1 for r in results if counts(r) and not shape_bounded(r))
    n_dis = sum(1 for r in results if counts(r) and not shape_bounded(r) and r.status == "unsat")
    n_sb = sum(1 for r in results if counts(r) and shape_bounded(r))
    n_sb_dis = sum(1 for r in results if counts(r) and shape_bounded(r) and r.status == "unsat")

    seen = set()
    for fid, txt in known_lines:
        if fid in seen:
            continue
        seen.add(fid)
        print(f"KNOWN-FINDING: property={prop} {fid} {txt}")

    # ---- evidence
    wall = time.time() - t0
    level = api.LEVELS.get(prop, "proof")
    by_solver = {}
    for r in discharged:
        by_solver[r.solver] = by_solver.get(r.solver, 0) + 1
    samples = []
    for r in results[:3] + [r for r in results if r.solver not in ("simplifier",)][:3]:
        samples.append({"obligation": r.name, "case": r.case, "status": r.status, "solver": r.solver, "smt2_head": r.smt_head[:300]})
    for b in bounded[:3]:
        if b.get("samples"):
            samples.append({"bounded": b["name"], "inputs": b["samples"][:2]})
    ev = {
        "property_id": prop, "tier": tier, "seed": seed, "level": level, "wall_s": round(wall, 2),
        "violations": len(violations),
        "coverage": {
            "obligations": n_obl, "discharged": n_dis,
            "shape_bounded": {"obligations": n_sb, "discharged": n_sb_dis,
                              "note": "obligations discharged for ALL values of the symbolic leaves (parameters, flags) but at FIXED structure "
                                      "(circuit shape / register size); reported separately and not counted in obligations/discharged"},
            "checker_cmd": f"python3-vt /verif/pyvc/check.py {prop} --tier {tier}",
            "trusted_base": sorted(trusted) + sorted(api.TRUSTED.get(prop, [])),
            "explanation": api.EXPLAIN.get(prop, ""),
            "functions_under_contract": functions,
            "proofs": {n: {"target": i["target"], "paths": i["paths"], "obligations": i["obligations"], "explore_s": i["explore_s"]}
                       for n, i in per_proof.items()},
            "discharged_by": by_solver,
            "solver_cpu_s": round(solver_cpu, 3), "solver_wall_s": round(solver_wall, 3),
            "per_obligation": [r.as_dict() for r in results][:4000],
            "undischarged": [r.as_dict() for r in unknown],
            "skipped_raw_clauses_of_open_findings": sorted({o.name for o in skipped})[:200],
            "undecided": [{"where": w, "reason": why} for w, why in undecided],
            "native_fallback_for_undecided": fallback,
            "bounded_standins": [{k: v for k, v in b.items()} for b in bounded],
            "known_findings": [{"id": f["id"], "what": f["what"], "reproduced": f.get("_reproduced")} for f in open_findings],
            "fixed_findings": [f for f in findings if f.get("status") == "fixed"],
            "vacuity": {"nonzero_obligations": True, "reachability_covers": "sat for every proof"},
            "assumption_scan": scan_assumptions(),
            "exploration": stats,
            "samples": samples or [{"note": "no obligations"}],
            "evaluations": sum(b.get("evaluations", 0) for b in bounded) + len(results),
            "distinct_nontrivial": max(2, sum(b.get("distinct_nontrivial", 0) for b in bounded) + sum(1 for r in results if r.solver != "simplifier")),
            "rule": "proof obligations: one per contract clause x path x index-case; bounded stand-ins report their own enumeration rule",
        },
        "assumptions": sorted(api.ASSUMPTIONS_GLOBAL) + sorted(api.TRUSTED.get(prop, [])),
    }
    if not a.no_evidence:
        os.makedirs(os.path.join(VERIF, "evidence"), exist_ok=True)
        with open(os.path.join(VERIF, "evidence", f"{prop}.json"), "w") as f:
            json.dump(ev, f, indent=1, default=str)

    print(f"[{prop}/{tier}] proofs={len(per_proof)} paths={stats['paths']} obligations={n_obl} discharged={n_dis} shape-bounded={n_sb_dis}/{n_sb} "
          f"sat={len(failed)} unknown={len(unknown)} undecided={len(undecided)} bounded={len(bounded)} "
          f"known={len(seen)} wall={wall:.1f}s solver_cpu={solver_cpu:.1f}s")
    if a.v or unknown or undecided:
        for r in unknown:
            print("  UNKNOWN", r.name, r.case, r.solver)
        for w, why in undecided:
            print("  UNDECIDED", w, "-", why)
    if violations:
        for name, rp, txt, real in violations:
            tail = "" if real else " no-failing-input-found"
            print(f"  failed obligation: {name}: {txt}")
            print(f"VIOLATION property={prop} replay={rp}{tail}")
        return 1
    if unknown or undecided:
        return 2
    return 0


NATIVE_PRELUDE = '''
import sys
def violated(msg):
    print("REPLAY-VIOLATION", OBLIGATION, "-", msg)
    sys.exit(1)
'''


_REPLAY_CACHE = {}


def make_replay(prop, name, rs, per_proof, obls=()):
    pn = rs[0].meta.get("proof")
    if pn in _REPLAY_CACHE:
        path, txt, real = _REPLAY_CACHE[pn]
        return path, txt + " (same proof, same replay)", real
    res = _make_replay(prop, name, rs, per_proof, obls)
    if res[2] or len(_REPLAY_CACHE) > 12:
        _REPLAY_CACHE[pn] = res
    return res


def _make_replay(prop, name, rs, per_proof, obls=()):
    """write a replay file for a failed obligation; try the proof's native replayer on the model"""
    d = os.path.join(VERIF, "replays", prop)
    os.makedirs(d, exist_ok=True)
    safe = re.sub(r"[^A-Za-z0-9_.-]+", "_", name)[:120]
    path = os.path.join(d, safe + ".py")
    r = rs[0]
    prf = None
    pn = r.meta.get("proof")
    if pn in per_proof:
        prf = per_proof[pn]["proof"]
    model = r.model or {}
    body = [
        "#!/venv/bin/python",
        f"# replay for failed obligation {name!r} (property {prop})",
        f"# case: {r.case!r}; solver: {r.solver}",
        "# verifier output (counter-model):",
    ]
    for k in sorted(model)[:200]:
        body.append(f"#   {k} = " + model[k][:300].replace("\n", "\n#      "))
    real = False
    txt = f"obligation failed ({len(rs)} case(s)); solver={r.solver}"
    if prf is not None and (prf.replay is not None or prf.native is not None):
        script = None
        try:
            if prf.replay is not None:
                script = prf.replay(model, name, r)
            else:
                for ob in obls:
                    try:
                        m, label = solve.live_model(ob)
                        if m is None:
                            continue
                        inputs = {}
                        for nm, obj in ob.inputs:
                            inputs[nm] = solve.concretize(m, obj)
                        script = "I = " + repr(inputs) + "\nOBLIGATION = " + repr(name) + "\n" + NATIVE_PRELUDE + prf.native
                        break
                    except Exception as e:
                        body.append(f"# counter-model could not be turned into concrete inputs: {e!r}")
                if script is None:
                    # witness battery only
                    script = "I = None\nOBLIGATION = " + repr(name) + "\n" + NATIVE_PRELUDE + prf.native
        except Exception as e:
            script = None
            body.append(f"# native replayer raised {e!r}")
        if script:
            tmp = path + ".try.py"
            with open(tmp, "w") as f:
                f.write("\n".join(body) + "\n" + script + "\n")
            rc, out, err = run_native(tmp, timeout=300)
            if rc == 1 and "REPLAY-VIOLATION" in out:
                os.replace(tmp, path)
                return path, txt + "; native replay fails: " + out.strip().splitlines()[-1][:200], True
            os.unlink(tmp)
            body.append(f"# native replay of the counter-model did not fail (rc={rc}): {out.strip()[-300:]!r}")
    body += [
        "import sys",
        f"print('obligation {name} is not discharged on this tree; no failing concrete input was constructed')",
        "print('no-failing-input-found')",
        "sys.exit(1)",
    ]
    with open(path, "w") as f:
        f.write("\n".join(body) + "\n")
    return path, txt, real


if __name__ == "__main__":
    sys.exit(main())
