"""Mechanical AST rewrites + loader that executes the *real* repo source on symbolic proxies.

What the rewrite changes (everything else is compiled verbatim by CPython):
  R1  `e is None` / `e is not None`      -> __vc__.isnone(e) / __vc__.notnone(e)
  R2  every `for` / `while` loop           -> `if __vc__.loop_native(id, iterable)`: the original loop,
                                              else: the invariant cut (assert on entry, havoc, one
                                              arbitrary iteration, assume on exit)
  R3  single-generator comprehensions      -> __vc__.comp(kind, lambda tgt: elt, lambda tgt: cond, it)
      (evaluated natively unless the iterable is a symbolic-length container)
  R4  builtins len/range/isinstance/list/tuple/enumerate/zip/sorted/sum/min/max/int/float/
      complex/abs/print/reversed/type are looked up in the module namespace (proxy-aware versions)
  R5  imports are resolved by the loader: repo modules are loaded the same way, numpy is the
      proxy-aware model (npm), absent third-party packages are stubs whose use is `Undecided`
  R6  decorators functools.lru_cache / numba.jit are identity (see DESIGN 2.1)
  R7  docstrings are dropped; annotations are dropped
  R8  `[...] * e` / `e * [...]` (list literal repetition) -> __vc__.list_mul (symbolic repetition count)
"""
from __future__ import annotations
import ast
import builtins
import copy
import hashlib
import os
import sys
import types

from . import state as _st
from .sym import (SV, SC, SOpt, SList, SRange, SArrBase, Undecided, StopPath, isnone, ite, z3int, z3bool,
                  as_slist, fresh_getter, eqv, And, Not, Implies, concrete_value)
from .engine import NeedHavoc
import z3

REPO = os.environ.get("PYVC_REPO", "/repo")


# ======================================================================================
# AST transformation
# ======================================================================================

def _name(id_, ctx=None):
    return ast.Name(id=id_, ctx=ctx or ast.Load())


def _vc(attr):
    return ast.Attribute(value=_name("__vc__"), attr=attr, ctx=ast.Load())


def _call(fn, *args):
    return ast.Call(func=fn, args=list(args), keywords=[])


def _const(v):
    return ast.Constant(value=v)


def _assigned_names(nodes):
    """names (re)bound anywhere in the statements (not descending into nested defs/lambdas/comps)"""
    out = []

    class V(ast.NodeVisitor):
        def visit_FunctionDef(self, n):
            out.append(n.name)
        visit_AsyncFunctionDef = visit_FunctionDef

        def visit_ClassDef(self, n):
            out.append(n.name)

        def visit_Lambda(self, n):
            pass

        def visit_ListComp(self, n):
            pass
        visit_SetComp = visit_DictComp = visit_GeneratorExp = visit_ListComp

        def visit_Name(self, n):
            if isinstance(n.ctx, (ast.Store, ast.Del)):
                out.append(n.id)

        def visit_Import(self, n):
            for a in n.names:
                out.append((a.asname or a.name).split(".")[0])
        visit_ImportFrom = visit_Import

        def visit_ExceptHandler(self, n):
            if n.name:
                out.append(n.name)
            self.generic_visit(n)

    v = V()
    for n in nodes:
        v.visit(n)
    seen = []
    for x in out:
        if x not in seen:
            seen.append(x)
    return seen


_MUTATORS = {"append", "extend", "insert", "pop", "remove", "sort", "reverse", "add", "update", "setdefault", "clear", "discard"}


def _mutated_names(nodes):
    out = []
    for n in nodes:
        for x in ast.walk(n):
            if isinstance(x, ast.Call) and isinstance(x.func, ast.Attribute) and x.func.attr in _MUTATORS \
                    and isinstance(x.func.value, ast.Name):
                out.append(x.func.value.id)
            if isinstance(x, (ast.Assign, ast.AugAssign, ast.Delete)):
                tgts = x.targets if isinstance(x, (ast.Assign, ast.Delete)) else [x.target]
                for t in tgts:
                    for e in ast.walk(t):
                        if isinstance(e, ast.Subscript) and isinstance(e.value, ast.Name):
                            out.append(e.value.id)
    seen = []
    for o in out:
        if o not in seen:
            seen.append(o)
    return seen


class Rewriter(ast.NodeTransformer):
    def __init__(self, modname):
        self.modname = modname
        self.qual = []          # qualified-name stack
        self.loop_counter = []  # per function ordinal counters
        self.loops = {}         # (qualname, ordinal) -> lineno

    # ---- scopes
    def _visit_scope(self, node, name):
        self.qual.append(name)
        self.loop_counter.append(0)
        node.body = self._strip_doc(node.body)
        self.generic_visit(node)
        self.loop_counter.pop()
        self.qual.pop()
        return node

    @staticmethod
    def _strip_doc(body):
        if body and isinstance(body[0], ast.Expr) and isinstance(getattr(body[0], "value", None), ast.Constant) \
                and isinstance(body[0].value.value, str):
            body = body[1:] or [ast.Pass()]
        return body

    def visit_FunctionDef(self, node):
        node.returns = None
        for a in node.args.args + node.args.kwonlyargs + node.args.posonlyargs:
            a.annotation = None
        if node.args.vararg: node.args.vararg.annotation = None
        if node.args.kwarg: node.args.kwarg.annotation = None
        node.decorator_list = [self.visit(d) for d in node.decorator_list]
        # generic_visit would revisit decorators; handle body only
        self.qual.append(node.name)
        self.loop_counter.append(0)
        node.body = self._strip_doc(node.body)
        node.body = [x for s in node.body for x in self._as_list(self.visit(s))]
        node.args = self.generic_visit(node.args)
        self.loop_counter.pop()
        self.qual.pop()
        return node

    @staticmethod
    def _as_list(x):
        if x is None:
            return []
        return x if isinstance(x, list) else [x]

    def visit_ClassDef(self, node):
        self.qual.append(node.name)
        node.body = self._strip_doc(node.body)
        node.body = [x for s in node.body for x in self._as_list(self.visit(s))]
        node.bases = [self.visit(b) for b in node.bases]
        self.qual.pop()
        return node

    def visit_AnnAssign(self, node):
        self.generic_visit(node)
        if node.value is None:
            return None
        return ast.copy_location(ast.Assign(targets=[node.target], value=node.value), node)

    # ---- R1
    def visit_Compare(self, node):
        self.generic_visit(node)
        if len(node.ops) == 1 and isinstance(node.ops[0], (ast.Is, ast.IsNot)):
            l, r = node.left, node.comparators[0]
            if isinstance(r, ast.Constant) and r.value is None:
                return ast.copy_location(_call(_vc("isnone" if isinstance(node.ops[0], ast.Is) else "notnone"), l), node)
            if isinstance(l, ast.Constant) and l.value is None:
                return ast.copy_location(_call(_vc("isnone" if isinstance(node.ops[0], ast.Is) else "notnone"), r), node)
        return node

    # ---- R8: `[...] * n` / `n * [...]` (list repetition with a possibly symbolic count)
    def visit_BinOp(self, node):
        self.generic_visit(node)
        if isinstance(node.op, ast.Mult) and (isinstance(node.left, ast.List) or isinstance(node.right, ast.List)):
            return ast.copy_location(_call(_vc("list_mul"), node.left, node.right), node)
        return node

    # ---- R3
    def _comp(self, node, kind):
        if len(node.generators) != 1 or node.generators[0].is_async:
            self.generic_visit(node)
            return node
        g = node.generators[0]
        it = self.visit(g.iter)
        tgt = g.target

        def mk_lambda(body):
            if isinstance(tgt, ast.Name):
                args = ast.arguments(posonlyargs=[], args=[ast.arg(arg=tgt.id)], kwonlyargs=[], kw_defaults=[], defaults=[])
                return ast.Lambda(args=args, body=body)
            # tuple target: lambda __t: (lambda a, b: body)(*__t)
            names = [e for e in ast.walk(tgt) if isinstance(e, ast.Name)]
            if not isinstance(tgt, ast.Tuple) or not all(isinstance(e, ast.Name) for e in tgt.elts):
                return None
            inner = ast.Lambda(args=ast.arguments(posonlyargs=[], args=[ast.arg(arg=e.id) for e in tgt.elts], kwonlyargs=[],
                                                  kw_defaults=[], defaults=[]), body=body)
            outer = ast.Lambda(args=ast.arguments(posonlyargs=[], args=[ast.arg(arg="_vc_t")], kwonlyargs=[], kw_defaults=[], defaults=[]),
                               body=ast.Call(func=inner, args=[ast.Starred(value=_name("_vc_t"), ctx=ast.Load())], keywords=[]))
            return outer

        if kind == "dict":
            elt = ast.Tuple(elts=[self.visit(node.key), self.visit(node.value)], ctx=ast.Load())
        else:
            elt = self.visit(node.elt)
        if g.ifs:
            cond = self.visit(g.ifs[0]) if len(g.ifs) == 1 else ast.BoolOp(op=ast.And(), values=[self.visit(c) for c in g.ifs])
        else:
            cond = None
        le = mk_lambda(elt)
        lc = mk_lambda(cond) if cond is not None else _const(None)
        if le is None or lc is None:
            return node
        new = _call(_vc("comp"), _const(kind), le, lc, it)
        return ast.copy_location(new, node)

    def visit_ListComp(self, node): return self._comp(node, "list")
    def visit_SetComp(self, node): return self._comp(node, "set")
    def visit_GeneratorExp(self, node): return self._comp(node, "gen")
    def visit_DictComp(self, node): return self._comp(node, "dict")

    # ---- R2
    def _loop_id(self, node):
        if not self.loop_counter:
            self.loop_counter.append(0)
        n = self.loop_counter[-1]
        self.loop_counter[-1] += 1
        key = (".".join(self.qual), n)
        self.loops[key] = node.lineno
        return key

    def visit_For(self, node):
        key = self._loop_id(node)
        qn, n = key
        kid = _const(f"{self.modname}:{qn}#{n}")
        node.iter = self.visit(node.iter)
        body = [x for s in node.body for x in self._as_list(self.visit(s))]
        orelse = [x for s in node.orelse for x in self._as_list(self.visit(s))]
        assigned = [a for a in _assigned_names(node.body) if not (a.startswith("__") or a.startswith("_vc_"))]
        assigned += [m for m in _mutated_names(node.body) if m not in assigned]
        tnames = _assigned_names([node.target])
        native = ast.For(target=node.target, iter=_call(_vc("loop_native_iter"), kid), body=copy.deepcopy(body),
                         orelse=copy.deepcopy(orelse))
        cut = self._cut(kid, assigned + [t for t in tnames if t not in assigned], body, orelse, target=node.target, cond=None)
        new = ast.If(test=_call(_vc("loop_native"), kid, node.iter, _call(_name("locals"))), body=[native], orelse=cut)
        return ast.copy_location(new, node)

    def visit_While(self, node):
        key = self._loop_id(node)
        qn, n = key
        kid = _const(f"{self.modname}:{qn}#{n}")
        test = self.visit(node.test)
        body = [x for s in node.body for x in self._as_list(self.visit(s))]
        orelse = [x for s in node.orelse for x in self._as_list(self.visit(s))]
        assigned = [a for a in _assigned_names(node.body) if not (a.startswith("__") or a.startswith("_vc_"))]
        assigned += [m for m in _mutated_names(node.body) if m not in assigned]
        guard = ast.If(test=_call(_vc("while_tick"), kid), body=[ast.Pass()], orelse=[])
        native = ast.While(test=copy.deepcopy(test), body=[guard] + copy.deepcopy(body), orelse=copy.deepcopy(orelse))
        cut = self._cut(kid, assigned, body, orelse, target=None, cond=test)
        new = ast.If(test=_call(_vc("loop_native"), kid, _const(None), _call(_name("locals"))), body=[native], orelse=cut)
        return ast.copy_location(new, node)

    def _cut(self, kid, assigned, body, orelse, target, cond):
        L = lambda: _call(_name("locals"))
        stmts = []
        stmts.append(ast.Assign(targets=[_name("_vc_h", ast.Store())],
                                value=_call(_vc("loop_pre"), kid, L(), ast.Tuple(elts=[_const(a) for a in assigned], ctx=ast.Load()))))
        for a in assigned:
            stmts.append(ast.If(test=ast.Compare(left=_const(a), ops=[ast.In()], comparators=[_name("_vc_h")]),
                                body=[ast.Assign(targets=[_name(a, ast.Store())],
                                                 value=ast.Subscript(value=_name("_vc_h"), slice=_const(a), ctx=ast.Load()))],
                                orelse=[]))
        stmts.append(ast.Expr(_call(_vc("loop_entry"), kid, L())))
        stmts.append(ast.Assign(targets=[_name("_vc_h", ast.Store())],
                                value=_call(_vc("loop_havoc"), kid, L(), ast.Tuple(elts=[_const(a) for a in assigned], ctx=ast.Load()))))
        for a in assigned:
            stmts.append(ast.If(test=ast.Compare(left=_const(a), ops=[ast.In()], comparators=[_name("_vc_h")]),
                                body=[ast.Assign(targets=[_name(a, ast.Store())],
                                                 value=ast.Subscript(value=_name("_vc_h"), slice=_const(a), ctx=ast.Load()))],
                                orelse=[]))
        arb = []
        if target is not None:
            arb.append(ast.Assign(targets=[copy.deepcopy(target)], value=_call(_vc("loop_elem"), kid)))
        arb.append(ast.Expr(_call(_vc("loop_assume_inv"), kid, L())))
        if cond is not None:
            arb.append(ast.If(test=ast.UnaryOp(op=ast.Not(), operand=copy.deepcopy(cond)),
                              body=[ast.Expr(_call(_vc("stop"), _const("guard false")))], orelse=[]))
        once = ast.For(target=_name("_vc_once", ast.Store()), iter=ast.Tuple(elts=[_const(0)], ctx=ast.Load()),
                       body=copy.deepcopy(body) or [ast.Pass()],
                       orelse=[ast.Expr(_call(_vc("loop_iter_end"), kid, L()))])
        arb.append(once)
        arb.append(ast.Expr(_call(_vc("loop_broke"), kid)))
        ex = [ast.Expr(_call(_vc("loop_exit"), kid, L()))]
        if cond is not None:
            ex.append(ast.If(test=copy.deepcopy(cond), body=[ast.Expr(_call(_vc("stop"), _const("guard true at exit")))], orelse=[]))
        ex.extend(copy.deepcopy(orelse))
        ex.append(ast.Expr(_call(_vc("loop_done"), kid)))
        stmts.append(ast.If(test=_call(_vc("loop_fork"), kid), body=arb, orelse=ex))
        return stmts


# ======================================================================================
# Runtime support object (``__vc__`` in every instrumented module)
# ======================================================================================

class SEnum:
    def __init__(self, base, start=0):
        self.base = base
        self.start = start


class SZip:
    """zip(a, b, ...) where at least one operand has symbolic length"""
    def __init__(self, parts):
        self.parts = [p.to_slist() if isinstance(p, SRange) else (p if isinstance(p, SList) else as_slist(list(p), "int")) for p in parts]

    def length(self):
        n = self.parts[0].length()
        for p in self.parts[1:]:
            n = ite(p.length() < n, p.length(), n)
        return SV(z3int(n))

    def at(self, i):
        return tuple(p.at(i) for p in self.parts)


class LoopSpec:
    """inv: callable(V) -> SV bool | dict name->SV bool; V has the locals as attributes,
    V.idx = number of completed iterations (for loops), V.ghost = engine ghost dict"""
    def __init__(self, inv=None, decreases=None, mode="inv", modifies=(), types=None, defs=None, split=None):
        self.types = types or {}
        self.defs = defs          # mode 'defs': callable(v) -> {path: (done -> cell function)}
        self.split = split        # callable(v) -> extra index terms to case-split on
        self.inv = inv
        self.decreases = decreases
        self.mode = mode
        self.modifies = modifies


class NS:
    def __init__(self, d, **extra):
        self.__dict__.update(d)
        self.__dict__.update(extra)


class Runtime:
    def __init__(self):
        self.loop_specs = {}     # loop key string -> LoopSpec
        self.extra_havoc = {}    # loop key -> set of birth ticks
        self.frames = []         # active loop frames (stack)
        self._pending = {}

    @property
    def eng(self):
        return _st.ENGINE

    # ---- R1
    @staticmethod
    def isnone(x):
        return isnone(x)

    @staticmethod
    def notnone(x):
        r = isnone(x)
        return ~r if isinstance(r, SV) else (not r)

    def stop(self, why=""):
        raise StopPath(why)

    @staticmethod
    def list_mul(a, b):
        if isinstance(a, list) and isinstance(b, (SV, SOpt)):
            lst, n = a, b
        elif isinstance(b, list) and isinstance(a, (SV, SOpt)):
            lst, n = b, a
        else:
            return a * b
        n = SV(z3int(n))
        c = concrete_value(n)
        if c is not None:
            return lst * c
        if len(lst) != 1:
            raise Undecided("repetition of a multi-element list a symbolic number of times")
        v = lst[0]
        from .sym import _numkind
        et = {"int": "int", "bool": "bool", "real": "real", "complex": "complex"}.get(_numkind(v))
        if v is None:
            et = "optint"
        if et is None:
            raise Undecided("repetition of a non-numeric list a symbolic number of times")
        ln = ite(n > 0, n, 0)
        from .sym import to_opt
        vv = to_opt(v) if et == "optint" else v
        return SList(et, lambda i: vv, SV(z3int(ln)))

    # ---- R3
    def comp(self, kind, elt, cond, it):
        if isinstance(it, (SList, SRange, SEnum, SZip)):
            if kind in ("list", "gen"):
                return self._sym_listcomp(elt, cond, it)
            raise Undecided(f"{kind} comprehension over a symbolic-length container")
        if kind == "list":
            return [elt(x) for x in it if (cond is None or cond(x))]
        if kind == "gen":
            # a generator expression over a concrete iterable stays a (lazy) iterator: next(), short-circuiting any()/all()
            return (elt(x) for x in it if (cond is None or cond(x)))
        if kind == "set":
            return {elt(x) for x in it if (cond is None or cond(x))}
        if kind == "dict":
            return dict(elt(x) for x in it if (cond is None or cond(x)))
        raise Undecided(kind)

    def _sym_listcomp(self, elt, cond, it):
        """[elt(x) for x in L if cond(x)] over a symbolic-length list: filter/map summary.

        result R: len(R) = cnt(len(L)) where cnt(0)=0, cnt(i+1)=cnt(i)+[cond(L[i])];
        forall i<len(L). cond(L[i]) -> R[cnt(i)] = elt(L[i]).  elt/cond are evaluated in spec
        mode (no forking, must be pure)."""
        eng = self.eng
        if isinstance(it, SRange):
            it = it.to_slist()
        enum = isinstance(it, SEnum)
        L = it.base if enum else it
        if isinstance(L, SRange):
            L = L.to_slist()
        n = L.length().t
        eng.trust("engine: filter/map summary of a pure single-generator comprehension")

        def item(i):
            return (SV(i + it.start), L.at(i)) if enum else L.at(i)
        if isinstance(it, SZip):
            n = it.length().t
        probe_i = eng.fresh("cmp_i", z3.IntSort(), bound=True)
        gs = []
        c0 = None
        if cond is not None:
            c0, cexc = eng.summarize(lambda: cond(item(probe_i)))
            if c0 is None:
                raise cexc[0][1]
            c0 = SV(z3bool(c0)) if not isinstance(c0, bool) else c0
            gs += [(z3.Not(pc), e) for pc, e in cexc]
        e0, eexc = eng.summarize(lambda: elt(item(probe_i)))
        if e0 is None:
            raise eexc[0][1]
        for pc, e in eexc:
            g = z3.Not(pc)
            if c0 is not None:
                g = z3.Implies(z3bool(c0), g)
            gs.append((g, e))
        if gs:
            # the comprehension raises iff some (selected) element takes a raising branch
            allok = z3.ForAll([probe_i], z3.Implies(z3.And(probe_i >= 0, probe_i < n), z3.And([g for g, _ in gs])))
            if not eng.branch(allok):
                raise gs[0][1]
        from .sym import _numkind
        if isinstance(e0, SOpt) or e0 is None:
            et = "optint"
        else:
            k = _numkind(e0)
            et = {"int": "int", "bool": "bool", "real": "real", "complex": "complex"}.get(k)
            if et is None:
                raise Undecided("comprehension element of unsupported type over symbolic list")
        R = SList.fresh("comp", et)
        if cond is None:
            eng.assume(R.length().t == n)
            eng.assume(z3.ForAll([probe_i], z3.Implies(z3.And(probe_i >= 0, probe_i < n), eqv(R.at(probe_i), e0))))
            return R
        cnt = eng.fresh_fun("cnt", z3.IntSort(), z3.IntSort())
        c0t = z3bool(c0)
        eng.assume(cnt(0) == 0)
        eng.assume(z3.ForAll([probe_i], z3.Implies(z3.And(probe_i >= 0, probe_i < n),
                                                   z3.And(cnt(probe_i + 1) == cnt(probe_i) + z3.If(c0t, 1, 0),
                                                          cnt(probe_i) >= 0, cnt(probe_i) <= probe_i,
                                                          z3.Implies(c0t, eqv(R.at(cnt(probe_i)), e0))))))
        eng.assume(R.length().t == cnt(n))
        eng.assume(z3.And(cnt(n) >= 0, cnt(n) <= n))
        R.ghost_cnt = cnt
        return R

    # ---- R2 loops
    def loop_native(self, key, iterable, loc):
        """decide whether the loop runs natively (concrete iteration) or is cut by its invariant"""
        if _st.ENGINE is None:
            self._pending[key] = iterable
            return True
        spec = self.loop_specs.get(key)
        symbolic = isinstance(iterable, (SList, SRange, SEnum, SZip)) or hasattr(iterable, "vc_symbolic_iter")
        if spec is None or (not symbolic and iterable is not None and spec.mode != "force"):
            if spec is None and hasattr(iterable, "vc_symbolic_iter") and _st.ENGINE is not None:
                n = iterable.n
                if isinstance(n, SV) and concrete_value(n) is None:
                    raise Undecided(f"loop {key} over a symbolic index set needs a loop specification")
            self._pending[key] = iterable
            return True
        fr = {"key": key, "iterable": iterable, "spec": spec, "count": 0, "cut": True}
        self.frames.append(fr)
        return False

    def loop_native_iter(self, key):
        it = self._pending.pop(key)
        if isinstance(it, SEnum):
            b = it.base
            if isinstance(b, SRange):
                b = b.to_slist()
            n = b.length().__index__()
            return [(k + it.start, b.at(z3.IntVal(k))) for k in range(n)]
        if isinstance(it, SZip):
            n = it.length().__index__()
            return [it.at(z3.IntVal(k)) for k in range(n)]
        return it

    def while_tick(self, key):
        # native while loop: cap the number of iterations per path
        eng = self.eng
        if eng is None:
            return True
        c = eng.loop_counts = getattr(eng, "loop_counts", {})
        k = (key, eng.cur_path.idx)
        c[k] = c.get(k, 0) + 1
        if c[k] > 200:
            raise Undecided(f"while loop {key} exceeded 200 native iterations (needs an invariant)")
        return True

    def _frame(self, key):
        for fr in reversed(self.frames):
            if fr["key"] == key:
                return fr
        raise RuntimeError("loop frame missing " + key)

    def _eval_inv(self, fr, loc, idx):
        spec = fr["spec"]
        eng = self.eng
        v = NS({k: val for k, val in loc.items() if not (k.startswith("__") or k.startswith("_vc_"))}, idx=idx, ghost=getattr(eng, "ghost", {}), pre=fr.get("pre"))
        with eng.spec_mode():
            r = spec.inv(v)
        if not isinstance(r, dict):
            r = {"inv": r}
        return r

    def loop_pre(self, key, loc, names):
        """native lists that the body mutates become symbolic lists (element type from the loop spec)"""
        fr = self._frame(key)
        out = {}
        types = getattr(fr["spec"], "types", None) or {}
        for nm in names:
            v = loc.get(nm)
            if isinstance(v, list) and nm in types:
                out[nm] = as_slist(v, types[nm])
        return out

    def loop_entry(self, key, loc):
        fr = self._frame(key)
        eng = self.eng
        it = fr["iterable"]
        fr["epoch"] = eng.tick()
        fr["pre"] = NS({k: (v.copy() if isinstance(v, SList) else v) for k, v in loc.items() if not (k.startswith("__") or k.startswith("_vc_"))})
        if fr["spec"].mode == "inv":
            for nm, c in self._eval_inv(fr, loc, SV(z3.IntVal(0))).items():
                eng.oblige(f"{key}/inv-entry/{nm}", c, kind="inv-entry")
        elif fr["spec"].mode == "defs":
            self._defs_entry(fr, key, loc)

    # ---- 'defs' mode: the loop is a map over an index domain; every array it writes is *defined*
    #      by a closure parameterised by the set of processed indices (no quantifiers, no havoc)
    def _resolve(self, loc, path):
        parts = path.split(".")
        o = loc[parts[0]]
        for a in parts[1:]:
            o = getattr(o, a)
        return o

    def _defs_entry(self, fr, key, loc):
        eng = self.eng
        spec = fr["spec"]
        v = NS({k: val for k, val in loc.items() if not (k.startswith("__") or k.startswith("_vc_"))}, ghost=getattr(eng, "ghost", {}))
        with eng.spec_mode():
            d = spec.defs(v)
        fr["defs"] = d
        fr["targets"] = {p: self._resolve(loc, p) for p in d}
        fr["extra_split"] = list(spec.split(v)) if spec.split else []
        for p, tgt in fr["targets"].items():
            if not isinstance(tgt, SArrBase) or any(q[0] != "sl" for q in tgt.sels):
                raise Undecided(f"loop {key}: defs target {p} must be a whole symbolic array")
            idx, hyp = tgt.all_cells("e")
            with eng.spec_mode():
                val = d[p](lambda x: False)(*[SV(i) for i in idx])
            eng.oblige(f"{key}/defs-entry/{p}", SV(z3.Implies(hyp, eqv(tgt.at(*idx), val))),
                       split=idx + fr["extra_split"], kind="inv-entry")

    def _defs_install(self, fr, done):
        eng = self.eng
        for p, tgt in fr["targets"].items():
            f = fr["defs"][p](done)

            def get(idx, f=f):
                with eng.spec_mode():
                    return f(*[SV(i) for i in idx])
            tgt.store.get = get

    def loop_havoc(self, key, loc, names):
        fr = self._frame(key)
        eng = self.eng
        out = {}
        for nm in names:
            if nm in loc:
                out[nm] = self._havoc_value(f"{nm}", loc[nm])
        hav = set()
        ticks = self.extra_havoc.get(key, set())
        for nm, v in loc.items():
            if isinstance(v, (SList,)) or isinstance(v, SArrBase):
                if v.birth in ticks:
                    v.havoc()
                    hav.add(id(getattr(v, "store", v)))
        # also attributes of `self`
        s = loc.get("self")
        if s is not None and hasattr(s, "__dict__"):
            for an, v in vars(s).items():
                if (isinstance(v, SList) or isinstance(v, SArrBase)) and v.birth in ticks and id(getattr(v, "store", v)) not in hav:
                    v.havoc()
                    hav.add(id(getattr(v, "store", v)))
        for tgt in fr.get("targets", {}).values():
            hav.add(id(tgt.store))
        fr["havoc_ids"] = hav
        # a havocked variable that holds a fresh container: it is its own object now
        for nm, v in out.items():
            if isinstance(v, SList) or isinstance(v, SArrBase):
                hav.add(id(getattr(v, "store", v)))
        return out

    def _havoc_value(self, nm, v):
        eng = self.eng
        if isinstance(v, SV):
            return SV(eng.fresh("hv_" + nm, v.t.sort()))
        if isinstance(v, bool):
            return eng.sym_bool("hv_" + nm)
        if isinstance(v, int):
            return eng.sym_int("hv_" + nm)
        if isinstance(v, float):
            return eng.sym_real("hv_" + nm)
        if isinstance(v, SC) or isinstance(v, complex):
            return eng.sym_complex("hv_" + nm)
        if isinstance(v, SOpt) or v is None:
            return eng.sym_optint("hv_" + nm)
        if isinstance(v, SList):
            return SList.fresh("hv_" + nm, v.etype)
        if isinstance(v, SArrBase):
            return v.fresh_like("hv_" + nm)
        raise Undecided(f"cannot havoc loop variable {nm} of type {type(v).__name__}")

    def loop_fork(self, key):
        fr = self._frame(key)
        eng = self.eng
        c = eng.fresh("loopfork", z3.BoolSort())
        d = eng.branch(c)
        fr["arbitrary"] = d
        if d:
            eng.loop_stack.append({"id": key, "arbitrary": True, "epoch": fr["epoch"], "havoc_ids": fr["havoc_ids"]})
            fr["pushed"] = True
        return d

    def _domain(self, fr):
        it = fr["iterable"]
        if isinstance(it, SList):
            return it.length().t, (lambda i: it.at(i))
        if isinstance(it, SRange):
            lo = it.lo.t
            return z3int(it.length()), (lambda i: SV(i + lo))
        if isinstance(it, SEnum):
            b = it.base
            if isinstance(b, SRange):
                b = b.to_slist()
            return b.length().t, (lambda i: (SV(i + it.start), b.at(i)))
        if isinstance(it, SZip):
            return it.length().t, (lambda i: it.at(i))
        if hasattr(it, "vc_symbolic_iter"):
            return it.vc_symbolic_iter()
        if it is None:
            return None, None
        # concrete iterable forced into cut mode
        vals = list(it)
        sl = as_slist(vals, "int")
        return sl.length().t, (lambda i: sl.at(i))

    def loop_elem(self, key):
        fr = self._frame(key)
        eng = self.eng
        if fr["spec"].mode == "defs":
            it = fr["iterable"]
            l = eng.fresh("it", z3.IntSort())
            P = eng.fresh_fun("done", z3.IntSort(), z3.BoolSort())
            eng.assume(z3.And(self._member(it, l), z3.Not(P(l))))
            fr["elem"] = l
            fr["P"] = P
            return SV(l)
        n, at = self._domain(fr)
        i = eng.fresh("it", z3.IntSort())
        eng.assume(z3.And(i >= 0, i < n))
        fr["idx"] = SV(i)
        return at(i)

    def _member(self, it, x):
        if isinstance(it, SRange):
            return z3.And(x >= it.lo.t, x < it.hi.t)
        if hasattr(it, "member"):
            return it.member(x)
        raise Undecided("defs-mode loop over an unsupported domain")

    def loop_assume_inv(self, key, loc):
        fr = self._frame(key)
        eng = self.eng
        if fr["spec"].mode == "defs":
            P = fr["P"]
            self._defs_install(fr, lambda x: SV(P(z3int(x))))
            fr["fp"] = _fingerprint(loc)
            return
        if fr["iterable"] is None and "idx" not in fr:
            i = eng.fresh("it", z3.IntSort())
            eng.assume(i >= 0)
            fr["idx"] = SV(i)
        for nm, c in self._eval_inv(fr, loc, fr["idx"]).items():
            eng.assume(c)
        if fr["spec"].decreases is not None:
            v = NS({k: val for k, val in loc.items() if not (k.startswith("__") or k.startswith("_vc_"))}, idx=fr["idx"], ghost=getattr(eng, "ghost", {}), pre=fr.get("pre"))
            with eng.spec_mode():
                fr["measure0"] = fr["spec"].decreases(v)
        if eng.solver.check() == z3.unsat:
            raise StopPath("loop invariant with guard infeasible")
        fr["fp"] = _fingerprint(loc)

    def loop_iter_end(self, key, loc):
        fr = self._frame(key)
        eng = self.eng
        if _fingerprint(loc) != fr["fp"]:
            raise Undecided(f"loop {key}: concrete (non-proxy) container or attribute mutated inside a cut loop")
        if fr["spec"].mode == "defs":
            P, l = fr["P"], fr["elem"]
            done2 = lambda x: SV(z3.Or(P(z3int(x)), z3int(x) == l))
            for p, tgt in fr["targets"].items():
                idx, hyp = tgt.all_cells("e")
                with eng.spec_mode():
                    val = fr["defs"][p](done2)(*[SV(i) for i in idx])
                eng.oblige(f"{key}/defs-preserve/{p}", SV(z3.Implies(hyp, eqv(tgt.at(*idx), val))),
                           split=idx + [l] + fr["extra_split"], kind="inv-preserve")
            self._pop(fr)
            raise StopPath("arbitrary iteration done")
        for nm, c in self._eval_inv(fr, loc, fr["idx"] + 1).items():
            eng.oblige(f"{key}/inv-preserve/{nm}", c, kind="inv-preserve")
        if fr["spec"].decreases is not None:
            v = NS({k: val for k, val in loc.items() if not (k.startswith("__") or k.startswith("_vc_"))}, idx=fr["idx"] + 1, ghost=getattr(eng, "ghost", {}), pre=fr.get("pre"))
            with eng.spec_mode():
                m1 = fr["spec"].decreases(v)
            m0 = fr["measure0"]
            eng.oblige(f"{key}/decreases", And(m1 < m0, m0 >= 0) if not isinstance(m0, tuple) else _lex_lt(m1, m0), kind="decreases")
        self._pop(fr)
        raise StopPath("arbitrary iteration done")

    def loop_broke(self, key):
        fr = self._frame(key)
        self._pop(fr)

    def _pop(self, fr):
        eng = self.eng
        if fr.get("pushed"):
            eng.loop_stack.pop()
            fr["pushed"] = False
        self.frames.remove(fr)

    def loop_exit(self, key, loc):
        fr = self._frame(key)
        eng = self.eng
        if fr["spec"].mode == "defs":
            it = fr["iterable"]
            self._defs_install(fr, lambda x: SV(self._member(it, z3int(x))))
            return
        n, at = self._domain(fr)
        idx = SV(n) if n is not None else None
        if idx is None:
            i = eng.fresh("it", z3.IntSort())
            eng.assume(i >= 0)
            idx = SV(i)
        for nm, c in self._eval_inv(fr, loc, idx).items():
            eng.assume(c)
        if eng.solver.check() == z3.unsat:
            raise StopPath("loop exit infeasible")

    def loop_done(self, key):
        fr = self._frame(key)
        self.frames.remove(fr)


def _lex_lt(m1, m0):
    # lexicographic decrease on tuples of ints, all components >= 0
    clauses = []
    eq_prefix = []
    for a, b in zip(m1, m0):
        clauses.append(And(*(eq_prefix + [a < b, b >= 0])))
        eq_prefix = eq_prefix + [a == b]
    from .sym import Or
    return Or(*clauses)


def _fingerprint(loc, depth=2):
    out = []

    def walk(v, d):
        if isinstance(v, (list, set)):
            out.append((id(v), len(v), tuple(id(x) for x in list(v)[:64])))
            if d > 0:
                for x in list(v)[:64]:
                    walk(x, d - 1)
        elif isinstance(v, dict):
            out.append((id(v), len(v), tuple((id(k), id(x)) for k, x in list(v.items())[:64])))
            if d > 0:
                for x in list(v.values())[:64]:
                    walk(x, d - 1)
        elif hasattr(v, "__dict__") and getattr(type(v), "__vc_instr__", False):
            out.append((id(v), tuple((k, id(x)) for k, x in sorted(vars(v).items()))))
            if d > 0:
                for x in vars(v).values():
                    walk(x, d - 1)

    for k in sorted(loc):
        if not (k.startswith("__") or k.startswith("_vc_")):
            walk(loc[k], depth)
    return out


RT = Runtime()


# ======================================================================================
# proxy-aware builtins (R4)
# ======================================================================================

def vc_len(x):
    if isinstance(x, (SList,)):
        return x.length()
    if isinstance(x, SRange):
        return SV(z3int(x.length()))
    if isinstance(x, SArrBase):
        return x.vc_len()
    return len(x)


def vc_range(*args):
    if any(isinstance(a, (SV, SOpt)) for a in args):
        if len(args) == 1:
            return SRange(0, args[0])
        if len(args) == 2:
            return SRange(args[0], args[1])
        st = args[2]
        if isinstance(st, int) and st == 1:
            return SRange(args[0], args[1])
        raise Undecided("range with symbolic bounds and step != 1")
    import numpy as _np
    return range(*[int(a) if isinstance(a, _np.integer) else a for a in args])


def vc_list(x=()):
    if isinstance(x, SList):
        r = x.copy()
        r.birth = _st.ENGINE.tick()
        return r
    if isinstance(x, SRange):
        return x.to_slist()
    if isinstance(x, SArrBase):
        return x.vc_tolist()
    return list(x)


def vc_tuple(x=()):
    if isinstance(x, (SList, SRange)):
        return vc_list(x)
    return tuple(x)


def vc_enumerate(x, start=0):
    if isinstance(x, (SList, SRange)):
        return SEnum(x, start)
    return enumerate(x, start)


def _real_types(cls):
    if isinstance(cls, tuple):
        return tuple(_real_types(c) for c in cls)
    return _TYPE_BACK.get(cls, cls)


def vc_zip(*parts):
    if any(isinstance(p, (SList, SRange)) for p in parts):
        return SZip(parts)
    return zip(*parts)


def vc_all(xs):
    if isinstance(xs, SList):
        if xs.etype != "bool":
            raise Undecided("all() over a non-boolean symbolic list")
        return forall_list(xs, lambda v: v)
    return all(xs)


def vc_any(xs):
    if isinstance(xs, SList):
        if xs.etype != "bool":
            raise Undecided("any() over a non-boolean symbolic list")
        return Not(forall_list(xs, lambda v: Not(v)))
    return any(xs)


def forall_list(xs, f):
    eng = _st.ENGINE
    j = eng.fresh("all_j", z3.IntSort(), bound=True)
    return SV(z3.ForAll([j], z3.Implies(z3.And(j >= 0, j < xs.length().t), z3bool(f(xs.at(j))))))


def vc_isinstance(x, cls):
    cls = _real_types(cls)
    import numbers
    import numpy as _np
    from collections import abc
    if isinstance(x, SOpt):
        if _st.ENGINE.branch(x.isnone):
            return isinstance(None, cls)
        x = SV(x.val)
    if isinstance(x, SV):
        proto = {"int": 0, "bool": True, "real": 0.0}[x.kind]
        return isinstance(proto, cls)
    if isinstance(x, SC):
        return isinstance(0j, cls)
    if isinstance(x, (SList,)):
        return isinstance([], cls)
    if isinstance(x, SRange):
        return isinstance(range(0), cls)
    if isinstance(x, SArrBase):
        return isinstance(_np.zeros(1), cls)
    return isinstance(x, cls)


def vc_int(x=0, *a):
    if isinstance(x, SV):
        if x.kind in ("int",):
            return x
        if x.kind == "bool":
            return SV(z3int(x))
        # truncation toward zero
        t = x.t
        fl = z3.ToInt(t)
        return SV(z3.If(t >= 0, fl, -z3.ToInt(-t)))
    if isinstance(x, SOpt):
        return x._asval()
    return int(x, *a)


def vc_float(x=0.0):
    if isinstance(x, SV):
        from .sym import z3real
        return SV(z3real(x))
    if isinstance(x, SC):
        raise TypeError("can't convert complex to float")
    return float(x)


def vc_complex(*a):
    if any(isinstance(x, (SV, SC)) for x in a):
        if len(a) == 1:
            return SC.lift(a[0])
        return SC.lift(a[0]) + SC.lift(a[1]) * 1j
    return complex(*a)


def vc_bool(x=False):
    if isinstance(x, SV):
        return SV(z3bool(x))
    return bool(x)


def vc_sum(xs, start=0):
    if isinstance(xs, (SList, SRange)):
        raise Undecided("sum over symbolic-length list")
    r = start
    for x in xs:
        r = r + x
    return r


def vc_min(*a, **kw):
    if len(a) == 1:
        a = list(a[0])
    if any(isinstance(x, (SV, SOpt)) for x in a) and not kw:
        r = a[0]
        for x in a[1:]:
            r = ite(x < r, x, r)
        return r
    return min(*a, **kw) if len(a) > 1 else min(a[0], **kw) if False else min(a, **kw)


def vc_max(*a, **kw):
    if len(a) == 1:
        a = list(a[0])
    if any(isinstance(x, (SV, SOpt)) for x in a) and not kw:
        r = a[0]
        for x in a[1:]:
            r = ite(x > r, x, r)
        return r
    return max(a, **kw)


def vc_sorted(x, **kw):
    if isinstance(x, SRange):
        return x.to_slist()
    if isinstance(x, SList):
        if kw or x.etype != "int":
            raise Undecided("sorted() of a symbolic list with key/reverse or non-int elements")
        eng = _st.ENGINE
        eng.trust("library: sorted(list of ints) = ascending list of the same length; equals its argument when that is already ascending; every element of either list occurs in the other")
        S = SList.fresh("sorted", "int", length=x.length())
        n = x.length().t
        i = eng.fresh("srt_i", z3.IntSort(), bound=True)
        j = eng.fresh("srt_j", z3.IntSort(), bound=True)
        eng.assume(z3.ForAll([i], z3.Implies(z3.And(i >= 0, i + 1 < n), S.at(i).t <= S.at(i + 1).t)))
        asc = z3.ForAll([i], z3.Implies(z3.And(i >= 0, i + 1 < n), x.at(i).t <= x.at(i + 1).t))
        eng.assume(z3.Implies(asc, z3.ForAll([i], z3.Implies(z3.And(i >= 0, i < n), S.at(i).t == x.at(i).t))))
        eng.assume(z3.Implies(z3.Not(asc), z3.Exists([i], z3.And(i >= 0, i < n, S.at(i).t != x.at(i).t))))
        eng.assume(z3.ForAll([i], z3.Implies(z3.And(i >= 0, i < n), z3.Exists([j], z3.And(j >= 0, j < n, S.at(i).t == x.at(j).t)))))
        return S
    return sorted(x, **kw)


def vc_print(*a, **k):
    return None


def vc_type(*a):
    if len(a) == 1:
        x = a[0]
        if isinstance(x, SV):
            return {"int": int, "bool": bool, "real": float}[x.kind]
        if isinstance(x, SC):
            return complex
        if isinstance(x, SList):
            return list
    return type(*a)


def vc_abs(x):
    return abs(x)


def vc_round(x, n=None):
    if isinstance(x, SV):
        return x.__round__(n)
    return round(x) if n is None else round(x, n)


class vc_str(str):
    """str(x): a symbolic number becomes a token (sym.sv_token); everything else is the builtin"""
    def __new__(cls, *a, **k):
        if len(a) == 1 and not k and isinstance(a[0], SV):
            from .sym import sv_token
            return sv_token(a[0])
        return str(*a, **k)


_TYPE_BACK = {vc_str: str, vc_int: int, vc_float: float, vc_complex: complex, vc_list: list, vc_tuple: tuple, vc_range: range}

VC_BUILTINS = {
    "len": vc_len, "range": vc_range, "list": vc_list, "tuple": vc_tuple, "enumerate": vc_enumerate,
    "isinstance": vc_isinstance, "int": vc_int, "float": vc_float, "complex": vc_complex,
    "zip": vc_zip, "all": vc_all, "any": vc_any,
    "sum": vc_sum, "min": vc_min, "max": vc_max, "sorted": vc_sorted, "print": vc_print, "round": vc_round, "str": vc_str,
}


# ======================================================================================
# loader (R5)
# ======================================================================================

class Stub:
    """stand-in for an absent third-party object: any *use* is Undecided unless overridden"""
    def __init__(self, name):
        object.__setattr__(self, "_name", name)
        object.__setattr__(self, "_over", {})

    def __getattr__(self, a):
        if a.startswith("__") and a.endswith("__"):
            raise AttributeError(a)
        o = object.__getattribute__(self, "_over")
        if a in o:
            return o[a]
        s = Stub(self._name + "." + a)
        o[a] = s
        return s

    def __setattr__(self, a, v):
        object.__getattribute__(self, "_over")[a] = v

    def __call__(self, *a, **k):
        raise Undecided(f"call to unmodelled external {self._name}")

    def __mro_entries__(self, bases):
        return (object,)

    def __repr__(self):
        return f"<stub {self._name}>"


def _identity_decorator(*dargs, **dkw):
    if len(dargs) == 1 and callable(dargs[0]) and not dkw:
        return dargs[0]
    return lambda f: f


class Loader:
    STUB_PACKAGES = ("thewalrus", "numba", "blackbird", "xir", "xcc", "tensorflow", "toml", "requests", "urllib3",
                     "quantum_blackbird", "antlr4", "dateutil", "matplotlib", "plotly", "pkg_resources", "appdirs")

    def __init__(self, repo=REPO):
        self.repo = repo
        self.modules = {}      # dotted name -> module object
        self.sources = {}      # dotted name -> (path, source, sha)
        self.loops = {}
        self.overrides = {}    # dotted external name -> object (library models)
        self.sf_attrs = {}     # attributes of the strawberryfields package object (e.g. hbar)
        self.trees = {}

    def path_of(self, dotted):
        p = os.path.join(self.repo, *dotted.split("."))
        if os.path.isdir(p):
            return os.path.join(p, "__init__.py"), True
        return p + ".py", False

    def load(self, dotted):
        if dotted in self.modules:
            return self.modules[dotted]
        path, ispkg = self.path_of(dotted)
        if not os.path.exists(path):
            raise Undecided(f"repo module {dotted} not found")
        src = open(path).read()
        self.sources[dotted] = (path, src, hashlib.sha256(src.encode()).hexdigest())
        tree = ast.parse(src, filename=path)
        self.trees[dotted] = ast.parse(src, filename=path)
        rw = Rewriter(dotted)
        tree.body = Rewriter._strip_doc(tree.body)
        tree = rw.visit(tree)
        ast.fix_missing_locations(tree)
        self.loops.update({f"{dotted}:{k[0]}#{k[1]}": ln for k, ln in rw.loops.items()})
        mod = types.ModuleType(dotted)
        mod.__file__ = path
        mod.__package__ = dotted if ispkg else dotted.rpartition(".")[0]
        if ispkg:
            mod.__path__ = [os.path.dirname(path)]
        b = dict(vars(builtins))
        b.update(VC_BUILTINS)
        b["__import__"] = self._import
        mod.__dict__["__builtins__"] = b
        mod.__dict__["__vc__"] = RT
        self.modules[dotted] = mod
        code = compile(tree, path, "exec")
        try:
            exec(code, mod.__dict__)
        except BaseException:
            del self.modules[dotted]
            raise
        for v in list(mod.__dict__.values()):
            if isinstance(v, type) and v.__module__ == dotted:
                try:
                    v.__vc_instr__ = True
                except TypeError:
                    pass
        return mod

    def source_segment(self, dotted, qualname):
        """(text, sha256, lineno) of the def/class `qualname` in the current working tree"""
        path, src, _ = self.sources[dotted] if dotted in self.sources else (None, None, None)
        if src is None:
            path, _ = self.path_of(dotted)
            src = open(path).read()
        tree = ast.parse(src)
        node = tree
        for part in qualname.split("."):
            found = None
            for ch in ast.iter_child_nodes(node):
                if isinstance(ch, (ast.FunctionDef, ast.ClassDef, ast.AsyncFunctionDef)) and ch.name == part:
                    found = ch
                    break
            if found is None:
                raise Undecided(f"{dotted}:{qualname} not found in source")
            node = found
        seg = ast.get_source_segment(src, node)
        return seg, hashlib.sha256(seg.encode()).hexdigest(), node.lineno

    # ---- import hook
    def _import(self, name, globals=None, locals=None, fromlist=(), level=0):
        if level > 0:
            pkg = globals.get("__package__") or ""
            parts = pkg.split(".")
            if level > 1:
                parts = parts[: -(level - 1)]
            base = ".".join(parts)
            full = base + ("." + name if name else "")
            return self._import_abs(full, fromlist)
        return self._import_abs(name, fromlist, topreturn=not fromlist)

    def _import_abs(self, full, fromlist, topreturn=False):
        top = full.split(".")[0]
        if top == "strawberryfields":
            if topreturn:
                return self._sf_module("strawberryfields")
            m = self._sf_module(full)
            return m
        if top in self.overrides and topreturn:
            return self.overrides[top]
        if full in self.overrides:
            return self.overrides[full]
        if top == "numpy":
            from . import npm
            return npm.module_for(full) if not topreturn else npm.NP
        if top == "functools":
            import functools
            m = types.ModuleType("functools")
            m.__dict__.update(vars(functools))
            m.lru_cache = _identity_decorator
            return m
        if top in self.STUB_PACKAGES:
            st = self.overrides.get(top)
            if st is None:
                st = Stub(top)
                if top == "numba":
                    st.jit = _identity_decorator
                    st.njit = _identity_decorator
                self.overrides[top] = st
            if topreturn or full == top:
                return st
            cur = st
            for part in full.split(".")[1:]:
                cur = getattr(cur, part)
            return cur
        import importlib
        m = importlib.import_module(full)
        if topreturn:
            return sys.modules[top]
        return m

    def _sf_module(self, full):
        path, ispkg = self.path_of(full)
        if ispkg:
            key = "pkg:" + full
            if key not in self.modules:
                self.modules[key] = SFPackage(self, full)
            return self.modules[key]
        if not os.path.exists(path):
            raise ImportError(full)
        return self.load(full)


class SFPackage(types.ModuleType):
    """lazy package object: attributes resolve to sub-modules or to names the package re-exports"""
    def __init__(self, loader, name):
        super().__init__(name)
        object.__setattr__(self, "_loader", loader)
        object.__setattr__(self, "_pname", name)

    def __getattr__(self, a):
        if a.startswith("__") and a.endswith("__"):
            raise AttributeError(a)
        ld = object.__getattribute__(self, "_loader")
        pn = object.__getattribute__(self, "_pname")
        key = pn + "." + a
        if key in ld.sf_attrs:
            v = ld.sf_attrs[key]
            return v() if callable(v) and getattr(v, "_vc_dynamic", False) else v
        path, ispkg = ld.path_of(key)
        if os.path.exists(path):
            return ld._sf_module(key)
        # names re-exported by the package __init__: look the definition up through its import table
        init = os.path.join(ld.repo, *pn.split("."), "__init__.py")
        if os.path.exists(init):
            tree = ast.parse(open(init).read())
            for node in tree.body:
                if isinstance(node, ast.ImportFrom):
                    for al in node.names:
                        if (al.asname or al.name) == a and node.level >= 1:
                            base = pn.split(".")
                            if node.level > 1:
                                base = base[: -(node.level - 1)]
                            sub = ".".join(base + ([node.module] if node.module else []))
                            m = ld._sf_module(sub)
                            if hasattr(m, al.name):
                                return getattr(m, al.name)
                            return ld._sf_module(sub + "." + al.name)
        # last resort: execute the package __init__ itself (as python would)
        try:
            m = ld.load(pn)
        except RecursionError:
            raise Undecided(f"attribute {key}: circular package import")
        if hasattr(m, a):
            return getattr(m, a)
        raise AttributeError(f"module {pn!r} has no attribute {a!r}")
