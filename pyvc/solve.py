"""Discharge obligations: top-level forall stripping, index case split, z3 (+UF abstraction +nlsat),
cvc5 for z3's unknowns.  Runs in a process pool; every query travels as SMT-LIB2 text."""
from __future__ import annotations
import itertools
import multiprocessing as mp
import os
import subprocess
import tempfile
import time
import z3


class Result:
    __slots__ = ("name", "case", "status", "solver", "time", "model", "kind", "path", "smt_head", "meta")

    def __init__(self, name, case, status, solver, t, model=None, kind="post", path=0, smt_head="", meta=None):
        self.name = name
        self.case = case
        self.status = status     # unsat | sat | unknown
        self.solver = solver
        self.time = t
        self.model = model
        self.kind = kind
        self.path = path
        self.smt_head = smt_head
        self.meta = meta or {}

    def as_dict(self):
        return {"obligation": self.name, "case": self.case, "status": self.status, "solver": self.solver,
                "time_s": round(self.time, 4), "kind": self.kind}


# ------------------------------------------------------------------ preparation (main process)

_cnt = itertools.count()


def strip_forall(goal):
    """to prove (forall x. phi) prove phi[c/x] for fresh constants c; also through conjunctions
    and under implications.  Returns (goal', [fresh consts])"""
    fresh = []

    def go(g):
        if z3.is_quantifier(g) and g.is_forall():
            n = g.num_vars()
            cs = [z3.Const(f"{g.var_name(i)}!sk{next(_cnt)}", g.var_sort(i)) for i in range(n)]
            fresh.extend(cs)
            body = z3.substitute_vars(g.body(), *reversed(cs))
            return go(body)
        if z3.is_and(g):
            return z3.And([go(c) for c in g.children()])
        if z3.is_implies(g):
            a, b = g.children()
            return z3.Implies(a, go(b))
        return g
    return go(goal), fresh


def partitions(items):
    """all set partitions of a list (Bell number many)"""
    if not items:
        yield []
        return
    first, rest = items[0], items[1:]
    for p in partitions(rest):
        for i in range(len(p)):
            yield p[:i] + [[first] + p[i]] + p[i + 1:]
        yield [[first]] + p


def case_split(hyps, goal, split_terms, quick_prune=True):
    """yield (label, hyps', goal') for every equality partition of split_terms"""
    terms = []
    seen = set()
    for t in split_terms:
        k = t.sexpr()
        if k not in seen:
            seen.add(k)
            terms.append(t)
    if not terms:
        yield "", hyps, goal
        return
    if len(terms) > 6:
        terms = terms[:6]
    pruner = None
    if quick_prune:
        pruner = z3.Solver()
        pruner.set("timeout", 300)
        for h in hyps:
            if not _has_quant(h) and _is_linear_int(h):
                pruner.add(h)
    for part in partitions(terms):
        cons = []
        subs = []
        label = []
        reps = []
        for block in part:
            # representative: prefer a constant (uninterpreted const) so we can substitute
            rep = block[0]
            for b in block:
                if z3.is_int_value(b):
                    rep = b
                    break
            reps.append(rep)
            for b in block:
                if b is not rep and not b.eq(rep):
                    cons.append(b == rep)
                    if z3.is_const(b) and b.decl().kind() == z3.Z3_OP_UNINTERPRETED:
                        subs.append((b, rep))
            label.append("=".join(str(b) for b in block))
        for a, b in itertools.combinations(reps, 2):
            cons.append(a != b)
        if pruner is not None:
            if pruner.check(*cons) == z3.unsat:
                continue
        h2 = [z3.substitute(h, *subs) if subs else h for h in hyps] + [z3.substitute(c, *subs) if subs else c for c in cons]
        g2 = z3.substitute(goal, *subs) if subs else goal
        h2 = [z3.simplify(h) for h in h2]
        g2 = z3.simplify(g2)
        yield "|".join(label), h2, g2


def _poly_identity(g):
    """goal is a conjunction of real equalities that hold as polynomial identities (sum-of-monomials
    normal form of lhs - rhs is 0): discharged without a solver call (sound)"""
    try:
        if z3.is_and(g):
            return all(_poly_identity(c) for c in g.children())
        if z3.is_eq(g):
            a, b = g.children()
            if a.sort() != z3.RealSort():
                return False
            d = z3.simplify(a - b, som=True, mul_to_power=True, hoist_mul=False)
            return z3.is_rational_value(d) and d.numerator_as_long() == 0
    except Exception:
        return False
    return False


def _has_quant(e):
    seen = set()
    stack = [e]
    while stack:
        x = stack.pop()
        if x.get_id() in seen:
            continue
        seen.add(x.get_id())
        if z3.is_quantifier(x):
            return True
        stack.extend(x.children())
    return False


def _is_linear_int(e):
    """cheap syntactic filter: no real-sorted subterm, no uninterpreted function application"""
    seen = set()
    stack = [e]
    while stack:
        x = stack.pop()
        if x.get_id() in seen:
            continue
        seen.add(x.get_id())
        if z3.is_quantifier(x):
            return False
        if x.sort() == z3.RealSort():
            return False
        if z3.is_app(x) and x.decl().kind() == z3.Z3_OP_UNINTERPRETED and x.num_args() > 0:
            return False
        if z3.is_app(x) and x.decl().kind() == z3.Z3_OP_MUL:
            nonconst = [c for c in x.children() if not z3.is_int_value(c)]
            if len(nonconst) > 1:
                return False
        stack.extend(x.children())
    return True


def to_smt2(hyps, goal):
    s = z3.Solver()
    for h in hyps:
        s.add(h)
    s.add(z3.Not(goal))
    return s.to_smt2()


# ------------------------------------------------------------------ worker

def _abstract_ufs(fmls):
    """replace applications of uninterpreted functions (arity>0) by fresh constants (sound for
    refutation: only congruence is lost).  Returns new formulas."""
    cache = {}
    memo = {}

    def go(e):
        i = e.get_id()
        if i in memo:
            return memo[i]
        if z3.is_quantifier(e):
            raise ValueError("quantifier")
        if z3.is_app(e):
            ch = [go(c) for c in e.children()]
            d = e.decl()
            if d.kind() == z3.Z3_OP_UNINTERPRETED and e.num_args() > 0:
                key = d.name() + "(" + ",".join(c.sexpr() for c in ch) + ")"
                if key not in cache:
                    cache[key] = z3.Const("uf!" + str(len(cache)), e.sort())
                r = cache[key]
            elif ch:
                r = d(*ch)
            else:
                r = e
        else:
            r = e
        memo[i] = r
        return r
    return [go(f) for f in fmls]


def _model_dict(m):
    out = {}
    for d in m.decls():
        try:
            out[d.name()] = str(m[d])
        except Exception:
            pass
    return out


def solve_text(text, timeout_s, use_cvc5=True):
    """returns (status, solver, seconds, model dict|None)"""
    t0 = time.time()
    try:
        fm = z3.parse_smt2_string(text)
    except Exception as e:  # pragma: no cover
        return "unknown", "parse-error:" + str(e)[:80], time.time() - t0, None
    fm = list(fm)
    # -1. subsumption: the goal follows from ONE hypothesis conjunct (linear relaxation, normalised polynomials)
    try:
        neg = [f for f in fm if z3.is_not(f)]
        goal_neg = fm[-1]
        atoms = []
        for f in fm[:-1]:
            if z3.is_and(f):
                atoms.extend(f.children())
            else:
                atoms.append(f)
        gn = z3.simplify(goal_neg, som=True, sort_sums=True, flat=True)
        gs = gn.sexpr()
        # only atoms that share a long common sub-string with the goal are tried (cheap relevance filter)
        keys = [w for w in set(gs.replace("(", " ").replace(")", " ").split()) if len(w) > 3 and not w[0].isdigit()]
        tried = 0
        for a in atoms:
            if tried > 200 or time.time() - t0 > timeout_s * 0.15:
                break
            an = z3.simplify(a, som=True, sort_sums=True, flat=True)
            asx = an.sexpr()
            if len(asx) > 4000 or not all(k in asx for k in keys[:6]):
                continue
            tried += 1
            sa = z3.Solver()
            sa.set("timeout", 300)
            sa.set("smt.arith.nl", False)
            sa.add(an, gn)
            if sa.check() == z3.unsat:
                return "unsat", "z3(one-hypothesis subsumption)", time.time() - t0, None
    except Exception:
        pass
    # 0. linear relaxation: non-linear monomials are opaque (sound for unsat; sat answers are ignored)
    try:
        s0 = z3.SolverFor("QF_UFLRA") if False else z3.Solver()
        s0.set("timeout", int(timeout_s * 450))
        s0.set("smt.arith.nl", False)
        # one polynomial normal form for hypotheses and goal, so equal polynomials are equal opaque terms
        s0.add(*[z3.simplify(f, som=True, sort_sums=True, flat=True) for f in fm])
        if s0.check() == z3.unsat:
            return "unsat", "z3(linear relaxation)", time.time() - t0, None
    except Exception:
        pass
    # 1. default z3
    s = z3.Solver()
    s.set("timeout", int(timeout_s * 250))
    s.add(*fm)
    r = s.check()
    if r == z3.unsat:
        return "unsat", "z3", time.time() - t0, None
    model = None
    if r == z3.sat:
        return "sat", "z3", time.time() - t0, _model_dict(s.model())
    # 2. UF abstraction + nlsat
    try:
        fm2 = _abstract_ufs(fm)
        tac = z3.Then("simplify", "solve-eqs", "qfnra-nlsat")
        s2 = tac.solver()
        s2.set("timeout", int(timeout_s * 150))
        s2.add(*fm2)
        r2 = s2.check()
        if r2 == z3.unsat:
            return "unsat", "z3(uf-abstraction+nlsat)", time.time() - t0, None
    except Exception:
        pass
    # 3. cvc5
    if use_cvc5:
        st = _cvc5(text, max(1.0, timeout_s * 0.15))
        if st in ("unsat", "sat"):
            return st, "cvc5", time.time() - t0, None
    return "unknown", "z3+cvc5", time.time() - t0, None


def _cvc5(text, timeout_s):
    try:
        with tempfile.NamedTemporaryFile("w", suffix=".smt2", delete=False, dir=os.environ.get("PYVC_WORK", None)) as f:
            f.write("(set-logic ALL)\n" + text + "\n(check-sat)\n" if "(check-sat)" not in text else "(set-logic ALL)\n" + text)
            p = f.name
        try:
            out = subprocess.run(["/usr/bin/cvc5", "--tlimit=%d" % int(timeout_s * 1000), p], capture_output=True, text=True,
                                 timeout=timeout_s + 5)
            o = out.stdout.strip().splitlines()
            return o[0].strip() if o else "unknown"
        finally:
            os.unlink(p)
    except Exception:
        return "unknown"


def _work(job):
    idx, text, timeout_s, use_cvc5 = job
    st, solver, t, model = solve_text(text, timeout_s, use_cvc5)
    return idx, st, solver, t, model


def discharge(obligations, timeout_s=10, workers=None, use_cvc5=True):
    """obligations: engine.Obligation list -> Result list (one per case)"""
    jobs = []
    metas = []
    for ob in obligations:
        goal, fresh = strip_forall(ob.goal)
        split = list(ob.split)
        if ob.meta.get("split_forall", True) and fresh and len(fresh) <= 3 and ob.meta.get("auto_split", False):
            split = split + [c for c in fresh if c.sort() == z3.IntSort()]
        for label, h2, g2 in case_split(ob.hyps, goal, split):
            if not z3.is_true(g2) and _poly_identity(g2):
                g2 = z3.BoolVal(True)
            if z3.is_true(g2):
                metas.append((ob, label, "trivial", ""))
                jobs.append(None)
                continue
            text = to_smt2(h2, g2)
            metas.append((ob, label, None, text[:400]))
            jobs.append((len(jobs), text, timeout_s, use_cvc5))
    results = [None] * len(jobs)
    real_jobs = [j for j in jobs if j is not None]
    for i, j in enumerate(jobs):
        if j is None:
            ob, label, _, _ = metas[i]
            results[i] = Result(ob.name, label, "unsat", "simplifier", 0.0, kind=ob.kind, path=ob.path, meta=ob.meta)
    if real_jobs:
        nw = workers or min(16, os.cpu_count() or 4)
        if nw > 1 and len(real_jobs) > 1:
            ctx = mp.get_context("fork")
            with ctx.Pool(min(nw, len(real_jobs))) as pool:
                for idx, st, solver, t, model in pool.imap_unordered(_work, real_jobs, chunksize=1):
                    ob, label, _, head = metas[idx]
                    results[idx] = Result(ob.name, label, st, solver, t, model, ob.kind, ob.path, head, ob.meta)
        else:
            for j in real_jobs:
                idx, st, solver, t, model = _work(j)
                ob, label, _, head = metas[idx]
                results[idx] = Result(ob.name, label, st, solver, t, model, ob.kind, ob.path, head, ob.meta)
        # budgets are wall-clock: a loaded machine can turn a query that normally takes a second into a timeout.  Every
        # 'unknown' is therefore asked once more with six times the budget and at most 4 at a time (verdicts must not
        # flip with the load; an answer that is still unknown stays undecided, it is never mapped to a violation).
        again = [(j[0], j[1], timeout_s * 6, use_cvc5) for j in real_jobs if results[j[0]] is not None and results[j[0]].status == "unknown"]
        if again:
            ctx = mp.get_context("fork")
            with ctx.Pool(min(4, len(again))) as pool:
                for idx, st, solver, t, model in pool.imap_unordered(_work, again, chunksize=1):
                    if st != "unknown":
                        ob, label, _, head = metas[idx]
                        results[idx] = Result(ob.name, label, st, solver + "(retry)", t + results[idx].time, model, ob.kind, ob.path, head, ob.meta)
    return results


def check_sat(formula, timeout_s=5):
    """for covers: formula must be satisfiable"""
    s = z3.Solver()
    s.set("timeout", int(timeout_s * 1000))
    s.add(formula)
    r = s.check()
    return str(r)


# ------------------------------------------------------------------ counter-model -> concrete inputs

def _val(m, t):
    v = m.eval(t, model_completion=True)
    if z3.is_int_value(v):
        return v.as_long()
    if z3.is_rational_value(v):
        from fractions import Fraction
        f = Fraction(v.numerator_as_long(), v.denominator_as_long())
        return float(f)
    if z3.is_algebraic_value(v):
        return float(v.approx(12).numerator_as_long()) / float(v.approx(12).denominator_as_long())
    if z3.is_true(v):
        return True
    if z3.is_false(v):
        return False
    raise ValueError(f"cannot evaluate {t}")


def concretize(m, obj, cap=24):
    from .sym import SV, SC, SOpt, SList
    from .arr import SArr
    if isinstance(obj, SV):
        return _val(m, obj.t)
    if isinstance(obj, SC):
        return complex(_val(m, obj.re), _val(m, obj.im))
    if isinstance(obj, SOpt):
        return None if _val(m, obj.isnone) else _val(m, obj.val)
    if isinstance(obj, SList):
        n = _val(m, obj.length().t)
        if n > cap:
            raise ValueError("list too long in model")
        return [concretize(m, obj.at(z3.IntVal(k))) for k in range(n)]
    if isinstance(obj, SArr):
        import itertools
        sh = [s if isinstance(s, int) else _val(m, s.t) for s in obj.shape]
        if any(s > 8 for s in sh):
            raise ValueError("array too large in model")

        def build(prefix, dims):
            if not dims:
                return concretize(m, obj.at(*[z3.IntVal(i) for i in prefix]))
            return [build(prefix + [i], dims[1:]) for i in range(dims[0])]
        return build([], sh)
    if isinstance(obj, (list, tuple)):
        return [concretize(m, o) for o in obj]
    if isinstance(obj, dict):
        return {k: concretize(m, v) for k, v in obj.items()}
    return obj


def live_model(ob, timeout_s=20):
    """re-solve a failed obligation in-process to obtain a model object (first failing case)"""
    goal, fresh = strip_forall(ob.goal)
    for label, h2, g2 in case_split(ob.hyps, goal, ob.split):
        s = z3.Solver()
        s.set("timeout", int(timeout_s * 1000))
        s.add(*h2)
        s.add(z3.Not(g2))
        if s.check() == z3.sat:
            return s.model(), label
    return None, None
