"""Library facades (assumed contracts, listed in evidence.trusted_base when used)."""
from __future__ import annotations
import types
import z3
from . import state as _st
from .sym import SV, SC, SOpt, Undecided, ite, z3real, _numkind


def _is_proxy(x):
    return isinstance(x, (SV, SC, SOpt))


class _SympyFunctions(types.ModuleType):
    """sympy.functions: on proxy arguments the function is the mathematical function (same
    abstraction as numpy's); otherwise real sympy."""
    _MAP = {"acosh": "arccosh", "asinh": "arcsinh", "atanh": "arctanh", "atan": "arctan", "acos": "arccos",
            "asin": "arcsin", "sqrt": "sqrt", "cosh": "cosh", "sinh": "sinh", "tanh": "tanh", "cos": "cos",
            "sin": "sin", "tan": "tan", "exp": "exp", "log": "log"}

    def __init__(self):
        super().__init__("sympy.functions")
        import sympy.functions as real
        object.__setattr__(self, "_real", real)

    def __dir__(self):
        return dir(self._real)

    def __getattr__(self, name):
        real = getattr(self._real, name)
        if not callable(real):
            return real

        def f(*args):
            if any(_is_proxy(a) for a in args):
                eng = _st.ENGINE
                eng.trust(f"library: sympy.functions.{name} denotes the mathematical function {name}")
                m = eng.math
                if name in self._MAP:
                    return getattr(m, self._MAP[name])(*args)
                if name == "atan2":
                    return m.arctan2(args[0], args[1])
                if name == "sign":
                    x = args[0]
                    return SV(z3.If(z3real(x) > 0, z3.RealVal(1), z3.If(z3real(x) < 0, z3.RealVal(-1), z3.RealVal(0))))
                if name == "Abs":
                    return abs(args[0])
                if name == "re":
                    return args[0].real
                if name == "im":
                    return args[0].imag
                if name == "conjugate":
                    return args[0].conjugate()
                if name == "arg":
                    return SC.lift(args[0]).angle()
                raise Undecided(f"sympy.functions.{name} on a symbolic value")
            return real(*args)
        f.__name__ = name
        return f


class _Sympy(types.ModuleType):
    def __init__(self):
        super().__init__("sympy")
        import sympy as real
        object.__setattr__(self, "_real", real)
        object.__setattr__(self, "functions", _SympyFunctions())

    def __getattr__(self, a):
        return getattr(self._real, a)


def install(loader):
    sp = _Sympy()
    loader.overrides["sympy"] = sp
    loader.overrides["sympy.functions"] = sp.functions

    def hbar():
        eng = _st.ENGINE
        if eng is not None and "hbar" in getattr(eng, "ghost", {}):
            return eng.ghost["hbar"]
        return 2
    hbar._vc_dynamic = True
    loader.sf_attrs["strawberryfields.hbar"] = hbar
    install_thewalrus(loader)


# ======================================================================================
# thewalrus.symplectic: executable models written from the library's documentation.  They are
# ASSUMED contracts (listed in trusted_base); native/lib_conformance.py compares them with the
# real thewalrus numerically.
# ======================================================================================
import numpy as _np


def _oz(shape):
    a = _np.empty(shape, dtype=object)
    a.fill(0.0)
    return a


def _eye(n):
    a = _oz((n, n))
    for k in range(n):
        a[k, k] = 1.0
    return a


def _M():
    """math namespace: engine abstraction when active, else numpy"""
    eng = _st.ENGINE
    if eng is not None:
        return eng.math
    return _np


def tw_interferometer(U):
    U = _np.asarray(U) if not isinstance(U, _np.ndarray) else U
    n = U.shape[0]
    S = _oz((2 * n, 2 * n))
    for a in range(n):
        for b in range(n):
            u = U[a, b]
            re = u.real if not isinstance(u, (int, float)) else u
            im = u.imag if not isinstance(u, (int, float)) else 0.0
            S[a, b] = re
            S[a, b + n] = -im
            S[a + n, b] = im
            S[a + n, b + n] = re
    return S


def tw_rotation(theta, dtype=None):
    m = _M()
    c, s = m.cos(theta), m.sin(theta)
    S = _oz((2, 2))
    S[0, 0], S[0, 1], S[1, 0], S[1, 1] = c, -s, s, c
    return S


def tw_squeezing(r, phi=None, dtype=None):
    m = _M()
    if phi is None:
        phi = 0.0
    ch, sh, cp, sp = m.cosh(r), m.sinh(r), m.cos(phi), m.sin(phi)
    S = _oz((2, 2))
    S[0, 0] = ch - sh * cp
    S[0, 1] = -sh * sp
    S[1, 0] = -sh * sp
    S[1, 1] = ch + sh * cp
    return S


def tw_two_mode_squeezing(r, phi, dtype=None):
    m = _M()
    cp, sp, ch, sh = m.cos(phi), m.sin(phi), m.cosh(r), m.sinh(r)
    S = _oz((4, 4))
    rows = [[ch, cp * sh, 0, sp * sh], [cp * sh, ch, sp * sh, 0], [0, sp * sh, ch, -cp * sh], [sp * sh, 0, -cp * sh, ch]]
    for a in range(4):
        for b in range(4):
            S[a, b] = rows[a][b]
    return S


def tw_beam_splitter(theta, phi, dtype=None):
    m = _M()
    ct, st, cp, sp = m.cos(theta), m.sin(theta), m.cos(phi), m.sin(phi)
    # U = [[ct, -conj(e) st], [e st, ct]], e = cp + i sp
    S = _oz((4, 4))
    re = [[ct, -cp * st], [cp * st, ct]]
    im = [[0, sp * st], [sp * st, 0]]
    for a in range(2):
        for b in range(2):
            S[a, b] = re[a][b]
            S[a, b + 2] = -im[a][b] if not isinstance(im[a][b], int) else 0
            S[a + 2, b] = im[a][b]
            S[a + 2, b + 2] = re[a][b]
    return S


def tw_expand(S, modes, N):
    S = _np.asarray(S) if not isinstance(S, _np.ndarray) else S
    M = S.shape[0] // 2
    modes = [modes] if isinstance(modes, int) else list(modes)
    S2 = _eye(2 * N)
    for a, ma in enumerate(modes):
        for b, mb in enumerate(modes):
            S2[ma, mb] = S[a, b]
            S2[ma + N, mb + N] = S[a + M, b + M]
            S2[ma, mb + N] = S[a, b + M]
            S2[ma + N, mb] = S[a + M, b]
    return S2


def tw_expand_vector(alpha, mode, N, hbar=2.0):
    """documented: the 2N vector (xxpp) with sqrt(2 hbar) Re(alpha) at `mode` and sqrt(2 hbar) Im(alpha) at N + mode"""
    m = _M()
    s = m.sqrt(2 * hbar) if _is_proxy(hbar) else float(_np.sqrt(2 * hbar))
    re = alpha.real if not isinstance(alpha, (int, float)) else alpha
    im = alpha.imag if not isinstance(alpha, (int, float)) else 0.0
    r = _oz((2 * N,))
    r[mode] = s * re
    r[N + mode] = s * im
    return r


def tw_xxpp_to_xpxp(S):
    S = _np.asarray(S)
    n = S.shape[0] // 2
    ind = _np.arange(2 * n).reshape(2, -1).T.flatten()
    if S.ndim == 1:
        return S[ind]
    return S[:, ind][ind]


def tw_xpxp_to_xxpp(S):
    S = _np.asarray(S)
    n = S.shape[0] // 2
    ind = _np.arange(2 * n).reshape(-1, 2).T.flatten()
    if S.ndim == 1:
        return S[ind]
    return S[:, ind][ind]


def tw_sympmat(N, dtype=None):
    O = _oz((2 * N, 2 * N))
    for k in range(N):
        O[k, k + N] = 1.0
        O[k + N, k] = -1.0
    return O


TW_SYMPLECTIC = {"interferometer": tw_interferometer, "rotation": tw_rotation, "squeezing": tw_squeezing,
                 "two_mode_squeezing": tw_two_mode_squeezing, "beam_splitter": tw_beam_splitter, "expand": tw_expand, "expand_vector": tw_expand_vector,
                 "xxpp_to_xpxp": tw_xxpp_to_xpxp, "xpxp_to_xxpp": tw_xpxp_to_xxpp, "sympmat": tw_sympmat}


def install_thewalrus(loader):
    from .instrument import Stub
    tw = loader.overrides.get("thewalrus")
    if tw is None:
        tw = Stub("thewalrus")
        loader.overrides["thewalrus"] = tw
    sym = tw.symplectic
    for k, f in TW_SYMPLECTIC.items():
        def wrap(f=f, k=k):
            def g(*a, **kw):
                if _st.ENGINE is not None:
                    _st.ENGINE.trust(f"library model: thewalrus.symplectic.{k} (documented matrix; conformance-tested natively)")
                return f(*a, **kw)
            g.__name__ = k
            return g
        setattr(sym, k, wrap())
