"""Library facades (assumed contracts, listed in evidence.trusted_base when used)."""
from __future__ import annotations
import types
import z3
from . import state as _st
from .sym import SV, SC, SOpt, Undecided, ite, z3real, _numkind


def _is_proxy(x):
    return isinstance(x, (SV, SC, SOpt))


class _SympyFunctions(types.ModuleType):
    """sympy.functions: on proxy arguments the function is the mathematical function (same
    abstraction as numpy's); otherwise real sympy."""
    _MAP = {"acosh": "arccosh", "asinh": "arcsinh", "atanh": "arctanh", "atan": "arctan", "acos": "arccos",
            "asin": "arcsin", "sqrt": "sqrt", "cosh": "cosh", "sinh": "sinh", "tanh": "tanh", "cos": "cos",
            "sin": "sin", "tan": "tan", "exp": "exp", "log": "log"}

    def __init__(self):
        super().__init__("sympy.functions")
        import sympy.functions as real
        object.__setattr__(self, "_real", real)

    def __dir__(self):
        return dir(self._real)

    def __getattr__(self, name):
        real = getattr(self._real, name)
        if not callable(real):
            return real

        def f(*args):
            if any(_is_proxy(a) for a in args):
                eng = _st.ENGINE
                eng.trust(f"library: sympy.functions.{name} denotes the mathematical function {name}")
                m = eng.math
                if name in self._MAP:
                    return getattr(m, self._MAP[name])(*args)
                if name == "atan2":
                    return m.arctan2(args[0], args[1])
                if name == "sign":
                    x = args[0]
                    return SV(z3.If(z3real(x) > 0, z3.RealVal(1), z3.If(z3real(x) < 0, z3.RealVal(-1), z3.RealVal(0))))
                if name == "Abs":
                    return abs(args[0])
                if name == "re":
                    return args[0].real
                if name == "im":
                    return args[0].imag
                if name == "conjugate":
                    return args[0].conjugate()
                if name == "arg":
                    return SC.lift(args[0]).angle()
                raise Undecided(f"sympy.functions.{name} on a symbolic value")
            return real(*args)
        f.__name__ = name
        return f


class _Sympy(types.ModuleType):
    def __init__(self):
        super().__init__("sympy")
        import sympy as real
        object.__setattr__(self, "_real", real)
        object.__setattr__(self, "functions", _SympyFunctions())

    def __getattr__(self, a):
        return getattr(self._real, a)


def install(loader):
    sp = _Sympy()
    loader.overrides["sympy"] = sp
    loader.overrides["sympy.functions"] = sp.functions

    def hbar():
        eng = _st.ENGINE
        if eng is not None and "hbar" in getattr(eng, "ghost", {}):
            return eng.ghost["hbar"]
        return 2
    hbar._vc_dynamic = True
    loader.sf_attrs["strawberryfields.hbar"] = hbar
