"""numpy arrays of symbolic shape: closure semantics (DESIGN 2.5).

An SArr is a *view*: (store, per-base-axis selectors).  The store is a mutable cell holding an
immutable getter closure (tuple of z3 Int terms -> wrapped scalar); writes rebind the store's
getter, so views alias exactly like numpy basic-indexing views do.  Anything that numpy
evaluates eagerly into a new array (copy, conj, arithmetic) captures the getter at that moment.
"""
from __future__ import annotations
import z3
from . import state as _st
from .sym import (SV, SC, SOpt, SList, SRange, SArrBase, Undecided, ite, z3int, z3real, z3bool, eqv, And,
                  _numkind, concrete_value)


class Store:
    __slots__ = ("get", "shape", "dtype", "birth", "name")

    def __init__(self, get, shape, dtype, name=None):
        self.get = get
        self.shape = tuple(shape)
        self.dtype = dtype
        self.birth = _st.ENGINE.tick() if _st.ENGINE else 0
        self.name = name


def _it(x):
    return x if isinstance(x, z3.ExprRef) else z3int(x)


def _dim(x):
    """dimension as python int when concrete, else SV"""
    if isinstance(x, SV):
        c = concrete_value(x)
        return c if c is not None else x
    return int(x)


def fresh_store(name, shape, dtype):
    eng = _st.ENGINE
    nd = len(shape)
    dom = [z3.IntSort()] * nd
    if dtype == "complex":
        fr = eng.fresh_fun(name + "_re", *dom, z3.RealSort())
        fi = eng.fresh_fun(name + "_im", *dom, z3.RealSort())
        get = lambda idx: SC(fr(*idx), fi(*idx))
    elif dtype == "real":
        f = eng.fresh_fun(name, *dom, z3.RealSort())
        get = lambda idx: SV(f(*idx))
    elif dtype == "int":
        f = eng.fresh_fun(name, *dom, z3.IntSort())
        get = lambda idx: SV(f(*idx))
    elif dtype == "bool":
        f = eng.fresh_fun(name, *dom, z3.BoolSort())
        get = lambda idx: SV(f(*idx))
    else:
        raise Undecided(dtype)
    return Store(get, shape, dtype, name=name)


class SArr(SArrBase):
    __hash__ = None
    __array_priority__ = 2000
    __array_ufunc__ = None

    def __init__(self, store, sels=None):
        self.store = store
        # selectors: one per base axis: ('fix', term) | ('sl', offset term, length (int|SV))
        self.sels = sels if sels is not None else [("sl", z3.IntVal(0), d) for d in store.shape]

    # ---- identity used by the loop-havoc machinery
    @property
    def birth(self):
        return self.store.birth

    def havoc(self):
        st = self.store
        new = fresh_store("hv_" + (st.name or "arr"), st.shape, st.dtype)
        st.get = new.get

    def fresh_like(self, name):
        return SArr(fresh_store(name, self.shape, self.store.dtype))

    @staticmethod
    def fresh(name, shape, dtype="complex"):
        return SArr(fresh_store(name, tuple(shape), dtype))

    @staticmethod
    def from_fn(shape, fn, dtype="complex", name=None):
        """array defined by fn(*index SVs) -> scalar"""
        return SArr(Store(lambda idx: fn(*[SV(i) for i in idx]), tuple(shape), dtype, name=name))

    # ---- shape
    @property
    def shape(self):
        return tuple(_dim(s[2]) for s in self.sels if s[0] == "sl")

    @property
    def ndim(self):
        return sum(1 for s in self.sels if s[0] == "sl")

    @property
    def dtype(self):
        return self.store.dtype

    def vc_len(self):
        sh = self.shape
        if not sh:
            raise TypeError("len() of unsized object")
        d = sh[0]
        return d if isinstance(d, SV) else SV(z3.IntVal(d))

    def __len__(self):
        return self.vc_len().__index__()

    # ---- reading
    def _base_index(self, vidx):
        out = []
        k = 0
        for s in self.sels:
            if s[0] == "fix":
                out.append(s[1])
            else:
                out.append(z3.simplify(vidx[k] + s[1]))
                k += 1
        return tuple(out)

    def reader(self):
        """snapshot: view-index tuple -> value, using the store's getter as of now"""
        g = self.store.get
        bi = self._base_index
        return lambda vidx: g(bi(tuple(vidx)))

    def at(self, *idx):
        """spec-level read without bounds checks"""
        return self.store.get(self._base_index(tuple(_it(i) for i in idx)))

    def _norm(self, i, dim):
        """python/numpy index normalisation with IndexError (forks when needed)"""
        si = i if isinstance(i, SV) else SV(z3int(i))
        d = dim if isinstance(dim, SV) else SV(z3.IntVal(dim))
        if si < 0:
            si = si + d
            if si < 0:
                raise IndexError("index out of bounds")
        elif si >= d:
            raise IndexError("index out of bounds")
        return si.t

    def _select(self, key):
        if not isinstance(key, tuple):
            key = (key,)
        if any(k is Ellipsis for k in key):
            raise Undecided("Ellipsis index")
        newsels = []
        ki = 0
        fancy = []
        for s in self.sels:
            if s[0] == "fix":
                newsels.append(s)
                continue
            if ki >= len(key):
                newsels.append(s)
                continue
            k = key[ki]
            ki += 1
            if isinstance(k, slice):
                if k.step not in (None, 1):
                    raise Undecided("stepped slice")
                off, ln = s[1], s[2]
                lnv = ln if isinstance(ln, SV) else SV(z3.IntVal(ln))
                if k.start is None and k.stop is None:
                    newsels.append(s)
                    continue
                lo = SV(z3.IntVal(0)) if k.start is None else SV(z3int(k.start))
                hi = lnv if k.stop is None else SV(z3int(k.stop))
                # assume in-range non-negative slices (checked: otherwise undecided)
                ok = And(lo >= 0, hi >= lo, hi <= lnv)
                if not _st.ENGINE.branch(ok.t):
                    raise Undecided("slice bounds outside 0 <= start <= stop <= len")
                newsels.append(("sl", z3.simplify(off + lo.t), _dim(hi - lo)))
            elif isinstance(k, (int, SV, SOpt)) or _numkind(k) in ("int",):
                t = self._norm(k, s[2])
                newsels.append(("fix", z3.simplify(s[1] + t)))
            else:
                raise FancyIndex()
        if ki < len(key):
            raise IndexError("too many indices for array")
        return newsels

    def __getitem__(self, key):
        try:
            sels = self._select(key)
        except FancyIndex:
            return self._fancy_get(key)
        v = SArr(self.store, sels)
        if v.ndim == 0:
            return self.store.get(v._base_index(()))
        return v

    # ---- writing
    def __setitem__(self, key, value):
        try:
            sels = self._select(key)
        except FancyIndex:
            return self._fancy_set(key, value)
        SArr(self.store, sels).assign(value)

    def _coerce(self, v):
        dt = self.store.dtype
        if dt == "complex":
            return SC.lift(v)
        if dt == "real":
            if isinstance(v, SC) or isinstance(v, complex):
                # numpy would discard the imaginary part with a warning; we refuse
                raise Undecided("complex stored into real array")
            return SV(z3real(v))
        if dt == "int":
            return SV(z3int(v))
        if dt == "bool":
            return SV(z3bool(v))
        return v

    def assign(self, value):
        st = self.store
        _st.ENGINE.note_mutation(self)
        old = st.get
        sels = list(self.sels)
        if isinstance(value, SArr):
            rd = value.reader()
            vnd = value.ndim
        elif isinstance(value, (SList, SRange)):
            sl = value if isinstance(value, SList) else value.to_slist()
            rd = lambda vidx: sl.at(vidx[0])
            vnd = 1
        elif _numkind(value) is not None:
            vv = self._coerce(value)
            rd = lambda vidx: vv
            vnd = 0
        else:
            import numpy as np
            if isinstance(value, (list, tuple, np.ndarray)):
                arr = np.array(value, dtype=object)
                rd = _concrete_reader(arr)
                vnd = arr.ndim
            else:
                raise Undecided(f"assign {type(value).__name__} into symbolic array")
        nd = self.ndim
        coerce = self._coerce

        def get(idx):
            conds = []
            vidx = []
            for s, i in zip(sels, idx):
                if s[0] == "fix":
                    conds.append(i == s[1])
                else:
                    ln = s[2].t if isinstance(s[2], SV) else z3.IntVal(s[2])
                    off = s[1]
                    conds.append(z3.And(i >= off, i < off + ln))
                    vidx.append(z3.simplify(i - off))
            # broadcasting of lower-dimensional value: align trailing axes
            vi = tuple(vidx[nd - vnd:]) if vnd <= nd else tuple(vidx)
            c = z3.simplify(z3.And(conds)) if conds else z3.BoolVal(True)
            return ite(SV(c), coerce(rd(vi)), old(idx))
        st.get = get

    # ---- whole-array helpers
    def copy(self):
        rd = self.reader()
        return SArr(Store(lambda idx: rd(idx), self.shape, self.store.dtype, name=self.store.name))

    def map(self, f, dtype=None):
        rd = self.reader()
        return SArr(Store(lambda idx: f(rd(idx)), self.shape, dtype or self.store.dtype))

    def zipmap(self, other, f, dtype=None):
        rd = self.reader()
        nd = self.ndim
        if isinstance(other, SArr):
            ro = other.reader()
            ond = other.ndim
            if ond > nd:
                return other.zipmap(self, lambda a, b: f(b, a), dtype)
            dt = dtype or _join_dtype(self.store.dtype, other.store.dtype)
            return SArr(Store(lambda idx: f(rd(idx), ro(idx[nd - ond:])), self.shape, dt))
        k = _numkind(other)
        if k is not None:
            dt = dtype or _join_dtype(self.store.dtype, {"int": "int", "bool": "int", "real": "real", "complex": "complex"}[k])
            return SArr(Store(lambda idx: f(rd(idx), other), self.shape, dt))
        import numpy as np
        if isinstance(other, (np.ndarray, list, tuple)):
            arr = np.array(other, dtype=object)
            ro = _concrete_reader(arr)
            ond = arr.ndim
            dt = dtype or "complex"
            return SArr(Store(lambda idx: f(rd(idx), ro(idx[nd - ond:])), self.shape, dt))
        return NotImplemented

    def __add__(self, o): return self.zipmap(o, lambda a, b: a + b)
    def __radd__(self, o): return self.zipmap(o, lambda a, b: b + a)
    def __sub__(self, o): return self.zipmap(o, lambda a, b: a - b)
    def __rsub__(self, o): return self.zipmap(o, lambda a, b: b - a)
    def __mul__(self, o): return self.zipmap(o, lambda a, b: a * b)
    def __rmul__(self, o): return self.zipmap(o, lambda a, b: b * a)
    def __truediv__(self, o): return self.zipmap(o, lambda a, b: a / b, dtype=_join_dtype(self.store.dtype, "real"))
    def __neg__(self): return self.map(lambda a: -a)
    def __pos__(self): return self

    def _inplace(self, o, f):
        tmp = self.zipmap(o, f)
        if tmp is NotImplemented:
            raise Undecided("in-place op with unsupported operand")
        if _join_dtype(self.store.dtype, tmp.store.dtype) != self.store.dtype:
            raise TypeError("Cannot cast ufunc output to the array dtype")
        self.assign(tmp)
        return self

    def __iadd__(self, o): return self._inplace(o, lambda a, b: a + b)
    def __isub__(self, o): return self._inplace(o, lambda a, b: a - b)
    def __imul__(self, o): return self._inplace(o, lambda a, b: a * b)

    def materialize(self):
        """object ndarray when every dimension is concrete"""
        import numpy as _np
        import itertools as _it
        sh = self.shape
        if any(isinstance(d, SV) for d in sh):
            raise Undecided("matrix product / reduction of symbolic-shape arrays")
        out = _np.empty(sh, dtype=object)
        rd = self.reader()
        for idx in _it.product(*[range(d) for d in sh]):
            out[idx] = rd(tuple(z3.IntVal(i) for i in idx))
        return out

    def __matmul__(self, o):
        a = self.materialize()
        b = o.materialize() if isinstance(o, SArr) else o
        return a @ b

    def __rmatmul__(self, o):
        b = self.materialize()
        a = o.materialize() if isinstance(o, SArr) else o
        return a @ b

    def conj(self):
        return self.map(lambda a: a.conjugate() if hasattr(a, "conjugate") else a)
    conjugate = conj

    @property
    def real(self):
        return self.map(lambda a: a.real if isinstance(a, (SC, SV)) else a, dtype="real" if self.store.dtype == "complex" else self.store.dtype)

    @property
    def imag(self):
        return self.map(lambda a: a.imag if isinstance(a, SC) else 0, dtype="real")

    @property
    def T(self):
        return self.transpose()

    def transpose(self, *axes):
        nd = self.ndim
        if nd != 2 or (axes and tuple(axes) not in ((1, 0), ((1, 0),))):
            if nd == 1:
                return self
            raise Undecided("transpose of symbolic array other than 2-D")
        rd = self.reader()
        sh = self.shape
        return SArr(Store(lambda idx: rd((idx[1], idx[0])), (sh[1], sh[0]), self.store.dtype))

    def reshape(self, *shape):
        if len(shape) == 1 and isinstance(shape[0], (tuple, list)):
            shape = tuple(shape[0])
        if self.ndim == 1 and tuple(shape) == (-1, 1):
            return IndexVec(self, "col")
        if self.ndim == 1 and tuple(shape) == (1, -1):
            return IndexVec(self, "row")
        raise Undecided("reshape of symbolic array")

    def vc_tolist(self):
        if self.ndim != 1:
            raise Undecided("list() of n-d symbolic array")
        rd = self.reader()
        et = {"int": "int", "real": "real", "complex": "complex", "bool": "bool"}[self.store.dtype]
        return SList(et, lambda i: rd((i,)), self.vc_len())

    def tolist(self):
        return self.vc_tolist()

    def __iter__(self):
        n = self.vc_len().__index__()
        for k in range(n):
            yield self[k]

    def __eq__(self, o):
        return self.zipmap(o, lambda a, b: a == b, dtype="bool")

    def __ne__(self, o):
        return self.zipmap(o, lambda a, b: a != b, dtype="bool")

    def __bool__(self):
        raise ValueError("The truth value of an array with more than one element is ambiguous")

    def __repr__(self):
        return f"SArr(shape={self.shape}, dtype={self.store.dtype})"

    # ---- fancy indexing (outer product of index vectors; 1-D index list)
    def _fancy_get(self, key):
        import numpy as _np
        # numpy object/int arrays of shape (k,1) / (1,k) / (k,) as index vectors
        def conv(k):
            if isinstance(k, _np.ndarray):
                if k.ndim == 2 and k.shape[1] == 1:
                    return IndexVec(as_slist_any(list(k[:, 0])), "col")
                if k.ndim == 2 and k.shape[0] == 1:
                    return IndexVec(as_slist_any(list(k[0, :])), "row")
                if k.ndim == 1:
                    return list(k)
            return k
        if isinstance(key, tuple):
            key = tuple(conv(k) for k in key)
        else:
            key = conv(key)
        if isinstance(key, tuple) and len(key) == 2 and isinstance(key[0], IndexVec) and isinstance(key[1], IndexVec) \
                and key[0].kind == "col" and key[1].kind == "row" and self.ndim == 2:
            r, c = key[0].vec_reader(), key[1].vec_reader()
            rd = self.reader()
            return SArr(Store(lambda idx: rd((z3int(r(idx[0])), z3int(c(idx[1])))), (key[0].length(), key[1].length()), self.store.dtype))
        if not isinstance(key, tuple) and self.ndim >= 1:
            vr, ln = _index_vector(key)
            if vr is not None:
                rd = self.reader()
                rest = self.shape[1:]
                return SArr(Store(lambda idx: rd((z3int(vr(idx[0])),) + tuple(idx[1:])), (ln,) + rest, self.store.dtype))
        raise Undecided("unsupported fancy indexing on symbolic array")

    def _fancy_set(self, key, value):
        raise Undecided("fancy-index assignment on symbolic array (needs a contract)")

    def all_cells(self, name="c"):
        """fresh index constants for an extensional check, with their range hypotheses"""
        eng = _st.ENGINE
        idx = []
        hyp = []
        for k, d in enumerate(self.shape):
            c = eng.fresh(f"{name}{k}", z3.IntSort())
            dt = d.t if isinstance(d, SV) else z3.IntVal(d)
            hyp.append(z3.And(c >= 0, c < dt))
            idx.append(c)
        return idx, z3.And(hyp) if hyp else z3.BoolVal(True)


class FancyIndex(Exception):
    pass


class IndexVec:
    """modes.reshape(-1,1) / reshape(1,-1): column / row index vector for outer fancy indexing"""
    def __init__(self, base, kind):
        self.base = base
        self.kind = kind

    def vec_reader(self):
        if isinstance(self.base, SArr):
            rd = self.base.reader()
            return lambda i: rd((i,))
        sl = self.base
        return lambda i: sl.at(i)

    def length(self):
        if isinstance(self.base, SArr):
            return self.base.shape[0]
        return _dim(self.base.length())


def as_slist_any(vals):
    from .sym import as_slist
    return as_slist(vals, "int")


def _index_vector(key):
    if isinstance(key, SArr) and key.ndim == 1 and key.store.dtype == "int":
        rd = key.reader()
        return (lambda i: rd((i,))), key.shape[0]
    if isinstance(key, SList) and key.etype == "int":
        return (lambda i: key.at(i)), _dim(key.length())
    if isinstance(key, SRange):
        sl = key.to_slist()
        return (lambda i: sl.at(i)), _dim(sl.length())
    if isinstance(key, (list, tuple)):
        from .sym import as_slist
        sl = as_slist(list(key), "int")
        return (lambda i: sl.at(i)), len(key)
    return None, None


def _concrete_reader(arr):
    """reader for a small concrete numpy/object array at symbolic indices (nested ite)"""
    import numpy as np
    import itertools
    shape = arr.shape

    def rd(idx):
        cells = list(itertools.product(*[range(s) for s in shape]))
        if not cells:
            return 0
        r = arr[cells[-1]]
        for c in reversed(cells[:-1]):
            cond = z3.And([i == k for i, k in zip(idx, c)]) if c else z3.BoolVal(True)
            r = ite(SV(cond), arr[c], r)
        return r
    return rd


def _join_dtype(a, b):
    order = {"bool": 0, "int": 1, "real": 2, "complex": 3}
    return a if order[a] >= order[b] else b


class SIndexSet(SArrBase):
    """np.delete(np.arange(n), excluded): the integers of [0, n) except the excluded ones,
    in ascending order.  Only usable as a loop domain (unordered 'done'-set cut)."""
    def __init__(self, n, excluded):
        self.n = n
        self.excluded = list(excluded)
        self.birth = 0

    def member(self, x):
        t = _it(x)
        n = self.n.t if isinstance(self.n, SV) else z3.IntVal(self.n)
        return z3.And([t >= 0, t < n] + [t != _it(e) for e in self.excluded])

    def vc_symbolic_iter(self):
        return self

    def __iter__(self):
        n = (self.n if isinstance(self.n, SV) else SV(z3.IntVal(self.n))).__index__()
        ex = [e.__index__() if isinstance(e, SV) else int(e) for e in self.excluded]
        for k in range(n):
            if k not in ex:
                yield k
