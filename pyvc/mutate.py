#!/usr/bin/env python3
"""Apply a textual mutation to a scratch copy of /repo/strawberryfields and run a check on it.
usage: mutate.py <prop> <relpath> <old> <new> [--tier quick] [--only regex]
The scratch copy lives under /tmp and is removed afterwards."""
import os, shutil, subprocess, sys, tempfile

def main():
    prop, rel, old, new = sys.argv[1:5]
    extra = sys.argv[5:]
    d = tempfile.mkdtemp(prefix="pyvc_mut_")
    try:
        shutil.copytree("/repo/strawberryfields", os.path.join(d, "strawberryfields"),
                        ignore=shutil.ignore_patterns("__pycache__", "*.pyc"))
        p = os.path.join(d, rel)
        s = open(p).read()
        if s.count(old) < 1:
            print("MUTATION-NOT-APPLICABLE (pattern not found)")
            return 9
        s = s.replace(old, new, 1)
        open(p, "w").write(s)
        env = dict(os.environ, PYVC_REPO=d)
        r = subprocess.run(["python3-vt", "/verif/pyvc/check.py", prop, "--no-evidence"] + extra, env=env,
                           capture_output=True, text=True)
        print(r.stdout[-3000:])
        if r.returncode not in (0, 1, 2):
            print(r.stderr[-2000:])
        print("exit", r.returncode)
        return r.returncode
    finally:
        shutil.rmtree(d, ignore_errors=True)

if __name__ == "__main__":
    sys.exit(main())
