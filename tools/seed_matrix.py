#!/usr/bin/env python3
"""Run the registered quick check of every seeded change against a scratch copy of /repo with the patch applied
(PYVC_REPO points the engine and the native stand-ins at the copy; /repo itself is not touched).
Writes seeded/RESULTS.md and 'caught_by' into each meta.json.  usage: seed_matrix.py [name-substring ...]"""
import json, os, re, shutil, subprocess, sys, tempfile, time
V = "/verif"
want = sys.argv[1:]
rows = []
from concurrent.futures import ThreadPoolExecutor
JOBS = int(os.environ.get("SEED_MATRIX_JOBS", "1"))


def one(name):
    sd = f"{V}/seeded/{name}"
    meta = json.load(open(f"{sd}/meta.json")) if os.path.exists(f"{sd}/meta.json") else {}
    prop = meta.get("property", name[:3])
    d = tempfile.mkdtemp(prefix="pyvc_seed_")
    t0 = time.time()
    try:
        shutil.copytree("/repo/strawberryfields", f"{d}/strawberryfields", ignore=shutil.ignore_patterns("__pycache__", "*.pyc"))
        r = subprocess.run(["patch", "-p1", "-s", "-i", f"{sd}/patch.diff"], cwd=d, capture_output=True, text=True)
        if r.returncode != 0:
            return (name, prop, "PATCH DOES NOT APPLY", [], 0)
        env = dict(os.environ, PYVC_REPO=d)
        r = subprocess.run(["python3-vt", f"{V}/pyvc/check.py", prop, "--tier", "quick", "--no-evidence"], env=env, capture_output=True, text=True, timeout=3000)
        fails = re.findall(r"failed obligation: (.*?)(?::| - )", r.stdout)
        viol = len(re.findall(r"^VIOLATION property=", r.stdout, re.M))
        replayed = len([l for l in r.stdout.splitlines() if l.startswith("VIOLATION") and not l.rstrip().endswith("no-failing-input-found")])
        uniq = []
        for f in fails:
            if f not in uniq:
                uniq.append(f)
        row = (name, prop, f"exit {r.returncode}, {viol} VIOLATION lines ({replayed} with a replayed failing input)", uniq, round(time.time() - t0))
        meta["caught_by"] = uniq[:12]
        meta["check_exit_on_seeded_tree"] = r.returncode
        json.dump(meta, open(f"{sd}/meta.json", "w"), indent=1)
    finally:
        shutil.rmtree(d, ignore_errors=True)
    print(row[:3], flush=True)
    return row


names = [n for n in sorted(os.listdir(f"{V}/seeded")) if os.path.isdir(f"{V}/seeded/{n}") and (not want or any(w in n for w in want))]
with ThreadPoolExecutor(max_workers=JOBS) as ex:
    rows = [r for r in ex.map(one, names) if r]
with open(f"{V}/seeded/RESULTS.md", "a" if want else "w") as f:
    if not want:
        f.write("# seeded changes vs. the registered quick checks (tools/seed_matrix.py)\n\n")
    for name, prop, res, uniq, secs in rows:
        f.write(f"* **{name}** ({prop}): {res}; {secs}s\n")
        for u in uniq[:8]:
            f.write(f"    - {u}\n")
        if len(uniq) > 8:
            f.write(f"    - ... {len(uniq) - 8} more\n")
