#!/usr/bin/env python3
"""validate a seeded defect: tools/validate_seed.py <seed-dir> <property> "<needs>" [--tests tests/a tests/b | --full]
 - fresh scratch worktree of /repo HEAD under /tmp, patch applied
 - demo must exit 1 with the patch and 0 without
 - the given test files (or the full suite with --full) must pass with the patch
 - writes <seed-dir>/meta.json ; removes the worktree
"""
import json, os, subprocess, sys, shutil, time
sd = os.path.abspath(sys.argv[1]); prop = sys.argv[2]; needs = sys.argv[3]
args = sys.argv[4:]
full = "--full" in args
tests = [a for a in args if a not in ("--full", "--tests")]
name = os.path.basename(sd)
wt = f"/tmp/val_{name}"
def sh(cmd, **kw):
    return subprocess.run(cmd, shell=True, capture_output=True, text=True, **kw)
sh(f"git -C /repo worktree remove --force {wt}")
r = sh(f"git -C /repo worktree add -q --detach {wt} HEAD"); assert r.returncode == 0, r.stderr
try:
    shutil.copy(os.path.join(sd, "demo_seed.py"), os.path.join(wt, "demo_seed.py"))
    env = dict(os.environ, PYTHONPATH=wt)
    clean = sh("/venv/bin/python demo_seed.py", cwd=wt, env=env)
    r = sh(f"git apply {sd}/patch.diff", cwd=wt); assert r.returncode == 0, r.stderr
    seeded = sh("/venv/bin/python demo_seed.py", cwd=wt, env=env)
    t0 = time.time()
    if full:
        cmd = "/venv/bin/python -m pytest -q -p no:cacheprovider --timeout=900 -n 10 -x tests"
    else:
        cmd = "/venv/bin/python -m pytest -q -p no:cacheprovider --timeout=900 -n 6 " + " ".join(tests)
    tr = sh(cmd, cwd=wt, env=env)
    tail = tr.stdout.strip().splitlines()[-1] if tr.stdout.strip() else tr.stderr[-300:]
    ok = clean.returncode == 0 and seeded.returncode == 1 and tr.returncode == 0
    meta = {"property": prop, "needs_to_manifest": needs,
            "base_commit": sh("git -C /repo rev-parse --short HEAD").stdout.strip(),
            "demo_exit_clean_tree": clean.returncode, "demo_exit_seeded_tree": seeded.returncode,
            "demo_output_seeded": seeded.stdout.strip().splitlines()[-6:],
            "tests_cmd": cmd, "tests_result": tail, "tests_rc": tr.returncode, "tests_wall_s": round(time.time() - t0),
            "validated": ok}
    old = {}
    mp = os.path.join(sd, "meta.json")
    if os.path.exists(mp):
        old = json.load(open(mp))
    old.update(meta)
    json.dump(old, open(mp, "w"), indent=1)
    print(json.dumps(meta, indent=1))
finally:
    sh(f"git -C /repo worktree remove --force {wt}")
