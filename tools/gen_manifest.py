#!/usr/bin/env python3
"""Regenerate MANIFEST.json from the table below (keeps it schema-valid)."""
import json, os
V = os.path.dirname(os.path.dirname(os.path.abspath(__file__)))
props = [json.loads(l) for l in open(os.path.join(V, "properties.jsonl"))]

CLAIMS = {
 # id: (category, text, level_note, technique, design_ref)
}
exec(open(os.path.join(V, "tools", "claims.py")).read())

NA = {
 "C20": "identities of real analysis over transcendental matrix functions and thewalrus kernels (gradient = derivative of cost, normalisation of infinite sums, Doktorov parameters via SVD/sqrtm): no contract in reach can state 'is the derivative of' and no installed solver decides them; see DESIGN.md section 6",
}

checks = []
for p in props:
    pid = p["id"]
    if pid in CLAIMS:
        cat, text, note, tech, ref = CLAIMS[pid]
        checks.append({
            "property_id": pid,
            "quick_cmd": f"python3-vt /verif/pyvc/check.py {pid} --tier quick",
            "thorough_cmd": f"python3-vt /verif/pyvc/check.py {pid} --tier thorough",
            "evidence_file": f"/verif/evidence/{pid}.json",
            "replay_cmd_template": "/venv/bin/python {path}",
            "engine": "pyvc",
            "level_claimed": {"category": cat, "text": text, "design_ref": ref},
            "level_note": note,
            "technique": tech,
        })
na = []
for p in props:
    pid = p["id"]
    if pid not in CLAIMS:
        na.append({"property_id": pid, "reason": NA.get(pid, "check not built yet in this session (plan: DESIGN.md section 5)")})

m = {
 "version": 1,
 "setup_cmd": "python3-vt /verif/pyvc/selftest.py",
 "hooks": {"guard": "SF_VERIF",
           "enable": "no hooks are needed: contracts live in sidecar files under /verif/contracts; /repo is parsed/compiled from its working tree by the engine and imported as-is by the native replays",
           "baseline_off_cmd": "cd /repo && /venv/bin/python -m pytest -ra -q -p no:cacheprovider --timeout=900 --continue-on-collection-errors",
           "source_commits": [], "add_only": True},
 "engines": [{"name": "pyvc", "path": "/verif/pyvc", "serves_properties": sorted(CLAIMS),
              "kind_free_text": "contract-based deductive verification: the real /repo source is compiled (mechanical AST rewrites R1-R7) and executed by CPython on symbolic proxy values, one run per path; contract clauses, loop invariants, frame conditions and lemmas become verification conditions discharged by z3 (with UF-abstraction + nlsat) and cvc5; counter-models are replayed natively under /venv/bin/python; bounded stand-ins are labelled and never counted as proved"}],
 "checks": checks,
 "notes": "Fixes of genuine defects are unguarded 'fix:' commits in /repo, recorded in /verif/known_findings.json. Exit codes of a check: 0 held, 1 violation, 2 undecided only, 3 checker crash/vacuity.",
 "not_applicable": na,
}
json.dump(m, open(os.path.join(V, "MANIFEST.json"), "w"), indent=1)
print("claimed:", sorted(CLAIMS), "not_applicable:", [x["property_id"] for x in na])
