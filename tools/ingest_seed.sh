#!/bin/bash
# ingest_seed.sh <worktree> <seed-name>: store patch + demo of a finished seed agent, drop the worktree, run the checks on it
set -e
wt=$1; name=$2
d=/verif/seeded/$name
mkdir -p $d
git -C $wt diff > $d/patch.diff
cp $wt/demo_seed.py $d/demo_seed.py
git -C /repo worktree remove --force $wt
[ -s $d/patch.diff ] || { echo "empty patch"; exit 1; }
echo "{\"property\": \"${name%%-*}\"}" > $d/meta.json
cd /verif && python3 tools/seed_matrix.py $name 2>&1 | tail -8
