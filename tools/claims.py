# CLAIMS[id] = (category, text, level_note, technique, design_ref)
_TB = ("Trusted: the engine's execution model (CPython running the instrumented real source on proxy values; rewrites R1-R7 "
       "listed in pyvc/instrument.py), z3/cvc5, A-real (doubles as mathematical reals, total division), the transcendental "
       "axioms printed in evidence.trusted_base, library contracts listed there. ")

CLAIMS["C08"] = ("proof",
    "Representation invariants proved after every public operation, so they hold for every call history: ModeMap "
    "(well-formedness + the whole alive/axis view after __init__/reset/add/delete/remap/valid, all list lengths, loop "
    "invariant + induction lemmas), and the Gaussian simulator's guard that a deleted mode is rejected with ValueError and "
    "leaves the state untouched. Unbounded in register size, mode indices and deletion sets.",
    _TB + "Not covered by proof: Program register bookkeeping, Fock/bosonic backends' add/del wrappers, backend.state labelling "
    "(planned, see DESIGN 5/C08).", "deductive verification: VCs from the real source + z3/cvc5", "DESIGN.md 5/C08")
CLAIMS["C01"] = ("proof",
    "Every Gaussian-simulator update method (displace, squeeze, phase_shift, beamsplitter, loss, thermal_loss) is proved to "
    "implement the documented Bogoliubov / channel action on ALL entries of N, M and alpha, for every register size, every "
    "target position and every real parameter (symbolic n, k, l, i, j; trig/hyperbolic functions abstracted by their "
    "algebraic identities). Two backends meeting the same independent spec agree.",
    _TB + "Scope: Gaussian simulator circuit layer only so far; bosonic/Fock layers and dispatch are planned (DESIGN 5/C01). "
    "thewalrus kernels and the TF backend are outside.", "deductive verification: VCs from the real source + z3/cvc5", "DESIGN.md 5/C01")
CLAIMS["C05"] = ("proof",
    "Frame clauses of the Gaussian simulator: for every update method, every entry of N, M, alpha outside the target "
    "rows/columns is proved unchanged (all n, all target positions); loss(0)/init_thermal leave the target mode uncorrelated "
    "with the rest.",
    _TB + "Scope: Gaussian simulator only so far.", "deductive verification: VCs from the real source + z3/cvc5", "DESIGN.md 5/C05")
CLAIMS["C07"] = ("proof",
    "Representation invariants hermitian(N), symmetric(M) proved preserved by every Gaussian-simulator mutator for all "
    "inputs; loss scales N[k,k] by T (never increases the photon number for 0<=T<=1).",
    _TB + "Physicality (uncertainty relation) follows from the canonical (A,B) by a textbook lemma that is trusted, not proved. "
    "Fock/bosonic clauses planned.", "deductive verification: VCs from the real source + z3/cvc5", "DESIGN.md 5/C07")
CLAIMS["C18"] = ("proof",
    "Program.__eq__ is proved sound for circuits of ARBITRARY length (symbolic lists of command stubs; loop invariant = the "
    "property's per-position clause): reported equal implies same number of commands and position-wise same class, "
    "parameters, modes, dagger flag and post-selection. program_equivalence: the node attributes and node_match are proved "
    "to imply same class, parameters within tolerance, same mode set (same order for order-sensitive gates), same dagger, "
    "by running the real function (and real networkx) on one-command programs with symbolic parameters and flags for a "
    "5-class alphabet x all mode placements; reflexive shortcut proved. Two genuine defects found this way were repaired "
    "(fix: commits bf95bfe, a4b227a).",
    _TB + "networkx.is_isomorphic is an assumed library contract (returns True only if a node_match-respecting bijection exists); "
    "invariance under permuting commuting commands rests on list_to_DAG being a function of per-wire orders (C04).",
    "deductive verification: VCs from the real source + z3/cvc5", "DESIGN.md 5/C18")
CLAIMS["C02"] = ("proof",
    "For Xgate, Zgate, Pgate, Fouriergate, MZgate, S2gate, CXgate, CZgate the REAL Gate.decompose/_decompose is executed on "
    "opaque real parameters (and symbolic hbar where it matters); the emitted command list, folded with the documented "
    "Heisenberg action of each primitive, equals the documented action of the composite for EVERY parameter value, for the "
    "dagger form (true inverse) and for every order/choice of target modes tried (ascending, descending, non-adjacent). "
    "Gate.apply's first-parameter convention (0 = identity, negation = inverse) is proved for every natively applied Gaussian "
    "gate class; it fails for MZgate (findings F36, F37, open, replayed on every run).",
    _TB + "Not yet under contract: mesh command builders (Interferometer), Gaussian/GraphEmbed/GaussianTransform decompositions "
    "(LAPACK; planned as bounded stand-ins), Compiler.decompose driver.",
    "deductive verification: VCs from the real source + z3/cvc5 (NRA with transcendental abstraction)", "DESIGN.md 5/C02")
CLAIMS["C04"] = ("other",
    "Bounded stand-in, NOT a proof: exhaustive over all command sequences up to length 3 (quick) / 4 (thorough) on a 13-symbol "
    "3-mode alphabet incl. feed-forward gates, plus random longer ones; checks per-wire grids, DAG paths between every "
    "dependent pair (covers every legal linearisation), group_operations partitions, remove_loss, GBS measurement collection. "
    "The contract technique has no unbounded reach here (dict-of-lists heap over networkx), see DESIGN 5/C04.",
    "bounded by sequence length / mode count; networkx sorts trusted to return linear extensions of the DAG",
    "bounded exhaustive enumeration against an independent dependency oracle (stand-in for contracts)", "DESIGN.md 5/C04")
CLAIMS["C19"] = ("other",
    "sample_to_event, orbit_to_sample and sample.postselect (samples opaque, sum under its library contract; result = order-preserving filter of exactly the samples whose total lies in [min,max]) are proved for lists of arbitrary length (exact integer spec). Everything else is a "
    "BOUNDED stand-in with independent oracles: partitions (n<=35/60), exact multinomial cardinalities (orbits of n<=8, "
    "modes<=60/200), conversions (<=4 modes), clique grow/swap/shrink and subgraph resize on every labelled graph with <=4/5 "
    "nodes with EVERY outcome of every random choice explored and compared with reference implementations of the documented "
    "selection rules. Three genuine defects found and repaired (fix: commits for orbit_cardinality x2, weight-mode index).",
    "bounded parts are never counted as proved; builtins max/sum/shuffle under library contracts",
    "deductive VCs for list functions + bounded exhaustive exploration of random choices", "DESIGN.md 5/C19")
CLAIMS["C11"] = ("proof",
    "The row-operation helpers of the gaussian_unitary and passive compilers (_apply_symp_one/two_mode_gate, "
    "_apply_one/two_mode_gate, _beam_splitter_passive) are proved for EVERY matrix size and target rows: S' = E S, r' = E r with "
    "the gate embedded at the target rows, whole-matrix postcondition. GaussianUnitary.compile is additionally executed for "
    "real on six circuit shapes (incl. descending, non-contiguous and hash-unordered mode sets {1,8}) with all parameters "
    "symbolic: the accumulated matrix equals the ordered product of the documented actions, the emitted GaussianTransform + "
    "Dgates have the same action on the register order they state, elision only within np.allclose tolerance (shape-bounded, "
    "reported separately). Bounded stand-in (c11_compilers): generated circuits over every Gaussian gate class on sparse, "
    "scrambled mode subsets of 4-11 mode registers compiled with gaussian_unitary / passive and compared exactly with the "
    "documented action of the emitted GaussianTransform / Dgate / PassiveChannel; gaussian_merge on hybrid circuits compared on "
    "the Fock simulator. F13 (hash-order layout), F51, F52 (gaussian_merge reordering) found and repaired; F14 (dagger ignored) "
    "is an open finding.",
    _TB + "thewalrus.symplectic helpers are executable models written from its documentation (conformance-tested natively); "
    "ops.GaussianTransform.__init__ is a contract stub. gaussian_merge (DAG surgery over networkx) is covered by the bounded "
    "stand-in only.",
    "deductive verification: VCs from the real source + z3/cvc5", "DESIGN.md 5/C11")
CLAIMS["C17"] = ("other",
    "Helper lemmas PROVED for all values: T and Ti have the documented 2x2 block and are the identity elsewhere for every matrix "
    "size; T.Ti = Ti.T = I; mach_zehnder equals its documented closed form and MZ.MZinv = I; nullT/nullTi (all three branches) "
    "and the zero branches of nullMZ/nullMZi make the targeted element exactly zero with an adjacent in-range mode pair; "
    "non-square input rejected. Whole routines are a BOUNDED stand-in (structured families, sizes 2..4 quick / 2..7 thorough): "
    "every mesh through Interferometer.decompose folded with independently defined gate unitaries, driver structure, takagi, "
    "williamson, bloch_messiah, graph_embed. F26, F34 (bloch_messiah) found and repaired; F39 (sun_compact) is an open finding.",
    _TB + "LAPACK-based routines and the general branch of nullMZ/nullMZi are bounded only; np.round(x,14) treated as x.",
    "deductive VCs (NRA with transcendental abstraction) for helper lemmas + bounded numeric stand-in for whole routines", "DESIGN.md 5/C17")
CLAIMS["C03"] = ("proof",
    "Merge rules PROVED for all parameter values and both dagger flags: for Dgate, Xgate, Zgate, Sgate, Pgate, Rgate, BSgate, "
    "S2gate, CXgate, CZgate the real Gate.merge returns None only if the composition of the documented actions is the "
    "identity and otherwise an operation whose documented action equals the composition; LossChannel/ThermalLossChannel "
    "merge = composition of the documented channels; Fouriergate and MSgate refuse to merge except Fourier with its inverse; "
    "self/other/parameter lists unmodified, result fresh. optimize_circuit is executed for real on 7 circuit shapes x 2 "
    "parameter-sharing patterns with all parameters symbolic: same documented action, not longer, inputs unmodified "
    "(shape-bounded, reported separately) and exhaustively on short sequences with feed-forward gates (bounded stand-in). "
    "F3, F4a, F4b found and repaired; F4c (MZgate public merge, pinned by an existing test) is an open finding.",
    _TB + "Non-Gaussian families (Kgate, Vgate, CKgate) are one-parameter groups by their documented definition exp(i p0 G) (not "
    "checked); Decomposition.merge (matrix products) not under contract.",
    "deductive verification: VCs from the real source + z3/cvc5 (NRA with transcendental abstraction)", "DESIGN.md 5/C03")
CLAIMS["C15"] = ("proof",
    "With hbar SYMBOLIC (> 0), every front-end conversion between hbar-dependent user units and the hbar-free backend API is "
    "proved to obey its scaling law by executing the real code against a recording stub backend: Xgate/Zgate (decompositions "
    "against the documented action), MeasureHomodyne._apply (select handed over hbar-free, outcome ~ sqrt(hbar)), "
    "MSgate._apply (ancilla outcome ~ sqrt(hbar); found wrong and repaired, F28), Vgate._apply, Gaussian._apply, "
    "BaseGaussianState.__init__ (means ~ sqrt(hbar), covariance ~ hbar, amplitudes hbar-free). A bounded end-to-end stand-in "
    "(same circuits at several hbar on three backends) is reported separately.",
    _TB + "thewalrus-computed Fock probabilities and the simulators' internal hbar=2 constants are not under contract.",
    "deductive verification: VCs from the real source + z3/cvc5 (NRA with sqrt abstraction)", "DESIGN.md 5/C15")
CLAIMS["C06"] = ("other",
    "Proved for all values: MeasureHomodyne unit conversion (select hbar-free to the backend, outcome x sqrt(hbar/2)); at fixed "
    "shapes (<= 3 modes, <= 2 shots, four measurement orders; reported as shape-bounded): Measurement.apply stores column j of the "
    "backend outcome in reg[j].val and nothing when shots is None, _combine_and_sort_samples returns rows = shots, columns = "
    "latest outcome per measured mode in ascending mode order. BOUNDED stand-in for the physics: the arguments handed to "
    "numpy.random.multivariate_normal / choice are the Born distribution of the pre-measurement state; conditional states are "
    "the Schur complement for the RETURNED outcome; vacuum reset; every ordered subset of measured modes with every outcome "
    "forced on the Fock backend; post-selected conditional states agree across gaussian/bosonic/fock. F21 found and repaired.",
    "bounded parts not counted as proved; the distributional claim (the draw IS Born distributed) is a statement about the RNG",
    "deductive VCs for unit conversion/storage/collation + bounded stand-in recording the RNG arguments", "DESIGN.md 5/C06")
CLAIMS["C16"] = ("other",
    "Proved: BaseGaussianState.reduced_gaussian for a SYMBOLIC number of modes and a mode list of symbolic length (whole result "
    "mu[modes ++ modes+N], cov[rows, cols]; non-ascending lists rejected; full-state shortcut only for range(N)); mean_photon "
    "reads exactly the requested mode (symbolic N). At fixed mode sets (6 subsets of a register of symbolic size, reported as "
    "shape-bounded): parity_expectation and reduced_dm ask for exactly the requested modes, hand only the REDUCED means/covariance "
    "to numpy.linalg / thewalrus (recording stubs), parity's value is the closed form of the reduced state, reduced_dm takes the "
    "pure shortcut iff the REDUCED state is pure and returns two indices per mode. BaseBosonicState (2 components x 2 modes and "
    "3 x 3, every weight / mean / covariance entry and the angle symbolic, shape-bounded): reduced_bosonic returns exactly the "
    "requested modes, quad_expectation = (weighted mean, second moment of the mixture minus squared mean), mean_photon mean and "
    "variance of the requested mode, fock_prob / reduced_dm hand every component in (x..,p..) order with its weight to thewalrus. "
    "Bounded stand-in: cross-method and cross-representation numerical identities on correlated 2-3 mode Gaussian states and "
    "two-mode cat states for every subset. F29, F30, F31 found and repaired; F42 (complex component means) is an open finding.",
    "thewalrus.quantum functions are recording stubs; numerical agreement of float pipelines is bounded only; sorted() library "
    "contract; bosonic contracts assume real weights and means",
    "deductive VCs over symbolic-size arrays + recording stubs for callee preconditions + bounded numeric stand-in", "DESIGN.md 5/C16")
CLAIMS["C14"] = ("other",
    "Proved at the IR-OBJECT level (real to_blackbird / from_blackbird / from_blackbird_to_tdm / to_xir / from_xir / "
    "from_xir_to_tdm executed on programs whose numeric parameters, post-selection values, dark counts, run options and TDM "
    "arrays are symbolic; blackbird.BlackbirdProgram / xir.Program replaced by record stubs; one obligation set per operation "
    "class on permuted modes + a mixed circuit + a TDM program: shape-bounded): the IR carries class name, modes in order, "
    "every parameter, select and dark_counts (falsy values included), target and options; converting does not modify the "
    "program (no aliasing of parameter lists); converting back rebuilds the same commands; measured-parameter expressions are "
    "re-bound to the same mode of the loaded program. Proved for every real |p| <= 1e6: io.utils._factor_out_pi returns text "
    "denoting its argument (lemma chain over round / mod). Bounded stand-in: text round trip through the real serialisers "
    "and parsers for every class of ops.__all__ x {blackbird, xir}, generate_code executed. F19, F43b-c, F49 found and repaired; "
    "F20, F35, F43a, F43-F48, F50 are open findings (TDM programs not serialisable to Blackbird text, dagger never serialised, symbolic parameters lost in the text, classes the IRs "
    "cannot express, generate_code drops select/dark_counts/dagger).",
    "blackbird / xir containers are record stubs in the proofs, their serialisers and parsers are only exercised by the bounded "
    "stand-in; real sympy is executed; floats as reals, np.isclose as its defining inequality",
    "deductive VCs with record stubs for the IR containers + lemma-chain proof of _factor_out_pi + bounded text round trip", "DESIGN.md 5/C14")
CLAIMS["C09"] = ("other",
    "Proved for all parameter values and both dagger flags (6 gate classes, normal and failing backend): Gate.apply leaves the "
    "operation's parameter list and its elements identical on normal AND exceptional exit, hands p[0] negated iff daggered, skips "
    "the backend iff p[0] == 0, passes modes in register order; merge and optimize_circuit never modify their inputs (C03 "
    "contracts), Gate.decompose flips only fresh products (C02 contracts). Bounded stand-in for the whole-history clauses: three "
    "ways of sequencing two programs (incl. a measured parameter crossing the boundary), reset = fresh engine, re-run, "
    "run/compile/optimize leave the user's Program untouched, on gaussian/fock/bosonic. F10 and F12 found and repaired; F9 "
    "(bosonic backend re-initialises per program) is an open finding.",
    "backend API = recording stub in the proofs; equality of final quantum states across call patterns is bounded only",
    "deductive VCs for frame conditions + bounded stand-in for call-history equivalence", "DESIGN.md 5/C09")
CLAIMS["C10"] = ("other",
    "Proved: a measured parameter is evaluated at APPLICATION time from the RegRef's current value (latest outcome, no caching), "
    "raises ParameterError before the measurement, par_evaluate/par_regref_deps semantics on real sympy expressions, unbound free "
    "parameters raise; all fixed-size decompositions are parametric (the C02 contracts run the real _decompose on opaque values). "
    "Bounded stand-in: symbolic vs substituted circuits agree through compile/decompose/optimize on three backends, most recent "
    "outcome around a re-measurement, unbound parameters raise. F12 repaired; F11 (sympy symbol identity across programs) is an "
    "open finding.",
    "sympy is executed for real (lambdify contract trusted); array-valued/TF parameters not covered",
    "deductive VCs + concrete sympy executions + bounded stand-in", "DESIGN.md 5/C10")
CLAIMS["C12"] = ("other",
    "Proved for all values: Range/Ranges membership with tolerance; Device.validate_parameters returns normally only if every "
    "(arbitrarily nested, flattened) value lies in an allowed range and raises ValueError otherwise / for unknown names; "
    "Borealis.update_params leaves every compensated phase in [-pi/2, pi/2] and changes it only by the accumulated loop offset "
    "modulo pi (3 loops x 2 time bins, everything symbolic; shape-bounded). Bounded stand-in: Xunitary/Xcov on generated source "
    "programs (zero/missing/repeated squeezers on one, two, all pairs; identity/swap/Haar interferometers; both gate orders; "
    "n = 4 quick, 4..8 thorough): X layout conformance, identical Gaussian state (Xunitary), identical photon statistics up to "
    "local phases (Xcov), wrong-pair squeezers rejected. F15 found and repaired.",
    "blackbird template matching / layout isomorphism not under contract; Takagi/mesh re-synthesis bounded only",
    "deductive VCs (linear real/integer arithmetic) + bounded numeric stand-in", "DESIGN.md 5/C12")
CLAIMS["C13"] = ("other",
    "Proved: shift_by is the cyclic rotation for every list length and shift. Bounded stand-in for the rest (the unrolling "
    "machinery drives Program.append and the sample arrangement is a property of an engine run): pulse-identifying "
    "displacements show that entry (shot, band, bin) of Result.samples is the outcome of that pulse for 7 band layouts x 3 bin "
    "counts x 2 shot counts x both measurement orders; register-shifting unrolling equals the hand-written fresh-mode loop, "
    "space-unrolling equals it too (single band); all unroll/space_unroll/roll/lock call sequences up to length 3/4; "
    "attributes of rolled operations survive. F17, F18, F33 found and repaired; F16, F32, F41 are open findings.",
    "bounded by the listed configurations; Gaussian backend only",
    "deductive VC for shift_by + bounded stand-in with pulse-identifying inputs", "DESIGN.md 5/C13")


# ---------------------------------------------------------------------------------------------------------------------
# texts as built (supersede the entries above where both exist)
# ---------------------------------------------------------------------------------------------------------------------
_T = "deductive verification: VCs from the real source + z3/cvc5"
CLAIMS["C01"] = ("proof",
    "Every Gaussian-simulator update method (displace, squeeze, phase_shift, beamsplitter, loss, thermal_loss, init_thermal, "
    "add_mode) is proved to implement the documented Bogoliubov / channel action on ALL entries of N, M and alpha for every "
    "register size, target position and real parameter (trig / hyperbolic functions abstracted by their algebraic identities; "
    "add_mode with nested loop invariants). Fock simulator: the axis bookkeeping of apply_twomode_gate (ghost axis tracker: the "
    "gate's four indices meet the axes of the requested modes in the requested order, sizes 2-5, every ordered pair, pure and "
    "mixed; shape-bounded) and the wrapper contract that EVERY FockBackend method addresses the simulator through the mode map "
    "(methods found by introspection). Bounded stand-in c01_backends: generated circuits over every gate / channel / "
    "preparation / post-selected measurement on gaussian, bosonic, fock against an independent numeric reference, incl. cat "
    "states of any parity. F1, F2 found and repaired.",
    _TB + "Gate kernels of the Fock simulator (thewalrus / einsum numerics) and the bosonic simulator are covered by the bounded "
    "stand-in only; the TF backend is outside.", _T, "DESIGN.md 0.2, 5/C01")
CLAIMS["C05"] = ("proof",
    "Frame clauses of the Gaussian simulator: for every update method every entry of N, M, alpha outside the target rows / "
    "columns is proved unchanged (all n, all target positions); loss(0) / init_thermal leave the target uncorrelated with the "
    "rest. Fock simulator with ghost labelled tensors (every axis carries (mode, ket|bra); einsum strings are checked for "
    "meaning): prepare_multimode / partial_trace / mix trace out exactly the targets and leave every other mode in place; "
    "BaseFockState.reduced_dm keeps the requested modes (1-4 modes, every subset; shape-bounded). Bounded stand-ins: "
    "c01_backends (operations on one part of an entangled register leave the reduced state of the rest), c06_measure.",
    _TB + "bosonic simulator frame behaviour bounded only.", _T, "DESIGN.md 0.2, 5/C05")
CLAIMS["C07"] = ("proof",
    "Representation invariants hermitian(N), symmetric(M) proved preserved by every Gaussian-simulator mutator for all inputs; "
    "loss scales N[k,k] by T. Bounded stand-in c01_backends: physicality (trace, hermiticity, positivity, uncertainty relation) "
    "of every state produced by generated circuits incl. post-selected measurements on three backends; completeness and binomial "
    "law of the Fock loss Kraus operators; photon-number conservation of passive gates.",
    _TB + "Physicality from the canonical (A,B) form is a textbook lemma that is trusted; Fock / bosonic physicality is bounded only.",
    _T, "DESIGN.md 0.2, 5/C07")
CLAIMS["C08"] = ("proof",
    "Representation invariants proved after every public operation, hence for every call history: ModeMap (well-formedness and "
    "the whole alive / axis view after __init__ / reset / add / delete / remap / valid; symbolic list lengths, loop invariants, "
    "induction lemmas); the Gaussian simulator rejects a deleted mode and leaves the state untouched; every FockBackend method "
    "translates its mode arguments through the map and refuses deleted modes (introspected; shape-bounded); FockBackend.state "
    "returns exactly the requested modes in the requested order (labelled tensors). Bounded stand-in c08_history: generated "
    "histories of New / Del / gates / measurements on three backends against a reference register. F7, F53, F54 found and repaired; "
    "F8 (bosonic New(n>1)) open.",
    _TB + "bosonic add / delete bookkeeping bounded only.", _T, "DESIGN.md 0.2, 5/C08")
CLAIMS["C18"] = ("proof",
    "Program.__eq__ is proved sound for circuits of ARBITRARY length (symbolic lists of command stubs; loop invariant = the "
    "property's per-position clause). program_equivalence: (a) one-command programs with symbolic parameters and flags, 5-class "
    "alphabet x all placements, through the real networkx: equivalent implies same class, parameters within tolerance, same "
    "modes (ordered for order-sensitive gates), same inverse flag; (b) programs of 2-3 commands (shape-bounded): the labelled "
    "graphs handed to networkx carry, node by node, the command's OWN class, inverse flag, parameters and modes and the edges are "
    "the dependencies of the circuit; node_match implies equality of all of these; the verdict of networkx is returned unchanged. "
    "F5, F6 found and repaired.",
    _TB + "networkx.is_isomorphic is an assumed library contract (True only if a node_match-respecting, edge-preserving bijection "
    "exists); list_to_DAG under contract for C04.", _T, "DESIGN.md 0.2, 5/C18")
CLAIMS["C02"] = ("proof",
    "For Xgate, Zgate, Pgate, Fouriergate, MZgate, sMZgate, S2gate, CXgate, CZgate the REAL Gate.decompose / _decompose is executed "
    "on opaque real parameters (symbolic hbar where it matters); the emitted command list, folded with the documented Heisenberg "
    "action of each primitive, equals the documented action of the composite for EVERY parameter value, for the inverse form and "
    "for every order of target modes tried. Gate.apply's first-parameter convention proved per natively applied class (fails for "
    "MZgate: F36, F37 open). Gaussian._decompose, branches that avoid the Williamson factor: a diagonal covariance with SYMBOLIC "
    "variances (1-2 modes, pure / mixed; shape-bounded) is reproduced by the emitted Thermal / Vacuum / Squeezed preparations "
    "within the elision tolerance (exp / log abstracted), displacements as requested. Bounded stand-ins c02_preps (Gaussian, "
    "GaussianTransform, graph embeddings, every Gate subclass followed by its inverse, distinct product objects) and c17_decomp "
    "(meshes through Interferometer.decompose). F26, F27, F40 found and repaired; F39 open.",
    _TB + "mesh command builders and LAPACK-based decompositions are bounded only.",
    _T + " (NRA with transcendental abstraction)", "DESIGN.md 0.2, 5/C02")
CLAIMS["C04"] = ("other",
    "Contracts at enumerated shapes (shape-bounded, not unbounded proofs): list_to_DAG / DAG_to_list / group_operations / "
    "optimize_circuit are executed on ABSTRACT commands (a command is its dependency set; sequences of length 1-3 quick / 4 "
    "thorough over every combination of dependency sets on 3 modes incl. measured-parameter dependencies): the graph has an "
    "edge path between every dependent pair in program order, every emitted order is a linear extension, nothing is lost or "
    "duplicated. par_regref_deps / Operation.measurement_deps / Command.get_dependencies over the grammar of parameters "
    "(every element form x container shape). Bounded stand-ins: c04_reorder (real operations incl. feed-forward, GBS "
    "measurement collection with register histories, order-sensitive merges), c11_compilers restricted to the two "
    "gaussian_merge reorder checks (exhaustive small sequences, opaque gates interpreted as fixed unitaries). F3, F13, F51, "
    "F52, F56, F57 found and repaired.",
    "no symbolic heap for dict-of-lists over networkx: sequence length and mode count are bounded; networkx sorts trusted to "
    "return linear extensions of the DAG they are given",
    "contracts executed on abstract commands at enumerated shapes + bounded exhaustive enumeration against an independent "
    "dependency oracle", "DESIGN.md 0.2, 5/C04")
CLAIMS["C03"] = (CLAIMS["C03"][0],
    CLAIMS["C03"][1] + " optimize_circuit is additionally run against ABSTRACT operations with a free, non-commutative merge "
    "(call order merge(earlier, later), nothing lost, maximal merging; shape-bounded).",
    CLAIMS["C03"][2], CLAIMS["C03"][3], "DESIGN.md 0.2, 5/C03")
CLAIMS["C15"] = (CLAIMS["C15"][0],
    CLAIMS["C15"][1] + " Every proof also carries the frame clauses 'operation object untouched' and 'second application hands "
    "the backend the same call'; the stand-in checks that every query of a state object is pure (data unchanged, second call "
    "identical). F59 found and repaired.", CLAIMS["C15"][2], CLAIMS["C15"][3], "DESIGN.md 0.2, 5/C15")
CLAIMS["C06"] = (CLAIMS["C06"][0],
    CLAIMS["C06"][1] + " Added: the probability vector the Fock simulator hands to the RNG for sampled homodyne detection is the "
    "Born distribution; bosonic threshold detection, both outcomes, against the Fock ket; cat states (complex component means) "
    "split on a beamsplitter and measured by post-selected homodyne / heterodyne detection against the closed-form conditional "
    "superposition and the Fock simulator.", CLAIMS["C06"][2], CLAIMS["C06"][3], "DESIGN.md 0.2, 5/C06")
CLAIMS["C16"] = (CLAIMS["C16"][0],
    CLAIMS["C16"][1] + " Fock / Gaussian index strings with ghost labelled tensors: BaseFockState.dm / trace / reduced_dm / fidelity, "
    "FockBackend.state, pure branch of BaseGaussianState.reduced_dm for 1-5 modes. Stand-in: Wigner functions on asymmetric grids "
    "across representations, backend.state(modes=subset) on three backends. F53, F54, F59 found and repaired.",
    CLAIMS["C16"][2], CLAIMS["C16"][3], "DESIGN.md 0.2, 5/C16")
CLAIMS["C09"] = ("other",
    "Proved for all parameter values and both inverse flags: Gate.apply leaves the operation's parameter list and its elements "
    "identical on normal AND exceptional exit (every natively applied class, found by introspection), hands p[0] negated iff "
    "inverted, passes modes in register order; merge / Channel.merge / optimize_circuit never modify their inputs; measurement "
    "_apply methods leave the operation untouched. At enumerated shapes (shape-bounded): BaseEngine._run against abstract program "
    "segments hands measured values over MODE BY MODE before the successor runs, binds, locks and runs every segment once in "
    "order; reset; Program(parent) shares nothing mutable with its parent (register references, unused indices, circuit) whatever "
    "is later done to the successor. Bounded stand-in c09_engine: three ways of sequencing programs (registers changing on either "
    "side of the boundary), reset = fresh engine, re-run, compile / optimize leave the user's program untouched, on three "
    "backends. F10, F12, F61 found and repaired; F9 open.",
    "backend API = recording stub in the proofs; equality of final quantum states across call patterns is bounded only",
    "deductive VCs for frame conditions + contracts on abstract segments + bounded stand-in for call-history equivalence",
    "DESIGN.md 0.2, 5/C09")
CLAIMS["C10"] = ("other",
    "Proved: a measured parameter is evaluated at APPLICATION time from the register's current value (latest outcome, no caching), "
    "raises ParameterError before the measurement; every natively applied operation class (introspected) uses symbolic parameters "
    "by value, stays symbolic afterwards and uses the new value on the next application; par_evaluate on real sympy expressions; "
    "par_regref_deps / Operation.measurement_deps / Command.get_dependencies return exactly the registers of the measured atoms "
    "at any depth of scalar expressions and object arrays of any shape (grammar enumerated; shape-bounded); fixed-size "
    "decompositions are parametric (C02 contracts). Bounded stand-in: symbolic vs substituted circuits through compile / decompose "
    "/ optimize on three backends, functions of real / integer / complex outcomes, array-valued parameters with and without the "
    "optimiser, most recent outcome around a re-measurement, re-binding. F12, F61 found and repaired; F11 open.",
    "sympy is executed for real (lambdify contract trusted); TF parameters not covered",
    "deductive VCs + contracts over the parameter grammar + bounded stand-in", "DESIGN.md 0.2, 5/C10")
CLAIMS["C12"] = (CLAIMS["C12"][0],
    CLAIMS["C12"][1] + " Added stand-in c12_device: compilation against a device specification (layout template, allowed values "
    "and ranges incl. hard-coded layout parameters, unions of ranges for arrays, mode and measurement limits): valid sources "
    "compile to the device topology with allowed parameters and the same Gaussian state, invalid ones are refused. F55 found and "
    "repaired.", CLAIMS["C12"][2], CLAIMS["C12"][3], "DESIGN.md 0.2, 5/C12")
CLAIMS["C13"] = ("other",
    "Proved for all values: shift_by is the cyclic rotation for every list length; roll / unroll / space_unroll as a TYPESTATE "
    "contract - each is called on an arbitrary state satisfying the representation invariant (rolled | unrolled(k shots) | "
    "space-unrolled(k shots); symbolic register size, time bins, shots, added modes; callees replaced by their contracts, the "
    "register by its length with Python's slice semantics) and re-establishes it, so for EVERY call history: roll restores circuit "
    "and register exactly, the circuit is the unrolling of the requested kind for the requested shots, refusals change nothing, "
    "the locked flag survives. At enumerated shapes (10 band / shift layouts x 1-3 time bins x 1-2 shots quick, up to 7 bins / 3 "
    "shots thorough; per-bin values symbolic; shape-bounded): _unroll_program + apply_op emit exactly the explicit loop (class, "
    "inverse flag, post-selection, constants, entry t of each array, register positions after g shifts; rolled commands "
    "untouched); reshape_samples puts the outcome of pulse (shot, band, bin) at that entry (8 band layouts, symbolic outcomes). "
    "Bounded stand-in c13_tdm: joint states against the hand-written loop, cropping, engine runs. F17, F18, F33, F60 found and "
    "repaired; F16, F32, F41, F58 open.",
    "joint quantum states of unrolled programs and engine-side options are bounded only (Gaussian backend)",
    "deductive VCs (typestate invariant over symbolic integers) + contracts at enumerated shapes + bounded stand-in",
    "DESIGN.md 0.2, 5/C13")


# ---- additions of the last rounds (bosonic simulator under contract etc.)
def _add(pid, text, idx=1):
    c = list(CLAIMS[pid])
    c[idx] = c[idx] + " " + text
    CLAIMS[pid] = tuple(c)


_BOS = ("Bosonic simulator (weighted sums of Gaussians with complex means, 2 modes x 2 components and 3 x 1, every entry symbolic; "
        "shape-bounded): displace, squeeze, phase_shift, beamsplitter, loss, thermal_loss, init_thermal act on EVERY component by the "
        "documented affine phase-space map, entry by entry, weights untouched; deleted modes refused with the state untouched.")
_add("C01", _BOS)
_add("C05", "Bosonic simulator: the same entry-by-entry contracts read outside the target quadratures (frame); general-dyne post-selection "
            "conditions every component by the Schur complement, resets the measured mode to an uncorrelated vacuum and reweights with the "
            "BILINEAR quadratic form; Fock Circuit.dealloc / alloc with labelled tensors (every ordered list of modes).")
_add("C07", "Bosonic measurement-based squeezing (average map): the channel handed on is completely positive for every detector efficiency "
            "in (0, 1] (X of unit determinant, both noise terms non-negative) with the documented X, Y.")
_add("C08", "Bosonic add_mode / del_mode (new mode last, vacuum, uncorrelated; deleted mode inactive, vacuum, others untouched); Fock "
            "Circuit.dealloc for every ORDERED list of modes and alloc (labelled tensors); multi-mode Del commands in every order in the "
            "history stand-in.")
_add("C06", "Bosonic post_select_generaldyne under contract (2 modes x 2 components, complex means, symbolic measurement covariance and "
            "outcome): Schur-complement update of every component, measured mode reset, exponent of the reweighting = -1/2 x the bilinear "
            "form, normalisation det(2 pi (C + sigma)); the final complex division by the sum of the weights and the zero-weight filter are "
            "not checked.")
_add("C15", "A state object is closed over its own convention: with the global sf.hbar and the state's hbar as DIFFERENT symbols, "
            "fidelity_coherent builds its reference state in the state's convention, mean_photon uses it, thewalrus is handed it; the "
            "stand-in repeats every query after the global convention was changed.")
_add("C17", "Drivers graph_embed / bipartite_graph_embed with the LAPACK callees and the root finder replaced by their contracts (2 x 2 "
            "symbolic complex matrix; shape-bounded): takagi only ever gets a symmetric matrix (callee precondition), the matrix handed on "
            "is scale x input (traceless first when requested), squeezing = -arctanh(s), U / V arranged as documented; Hermitian, "
            "permutation and rank-one families in the stand-in.")
_add("C03", "With measured-parameter dependencies among the abstract operations: every source operation occurs exactly once, users of an "
            "outcome stay after their measurement and before the next one of that mode, merged operations keep the dependencies of their parts.")

_add("C06", "Gaussian photon counting / threshold detection: the (mean, covariance) handed to thewalrus' sampler are the moments of the "
            "measured modes in the listed order (labelled symbols, every ordered subset of 2-3 modes; shape-bounded).")
_add("C16", "BaseBosonicState.marginal: exponent and normalisation of every component are those of the rotated quadrature "
            "(the moments quad_expectation is proved against).")
_add("C14", "Time-domain programs with TWELVE loop variables (two-digit names) round-trip through both IR object models with every "
            "array bound to its own variable.")
_add("C18", "The structure-only mode (compare_params=False) is under the same labelled-graph contract: parameters ignored, class, "
            "inverse flag and modes still compared.")
_add("C09", "Program._clear_regrefs leaves no register ever created (deleted ones included) with a measured value.")
_add("C10", "par_evaluate on expressions mixing measured and free atoms, asymmetric in every pair: every atom gets its own value.")
_add("C12", "The X-compiler stand-in is repeated under several values of the global hbar.")
_add("C02", "Mesh stand-in: every (constructor mesh, decomposition-time mesh option) pair of Interferometer.")
_add("C07", "Stand-in: every non-Gaussian bosonic preparation (cat states of fractional parity in both representations, Fock, GKP) "
            "is a physical state (real Wigner function, unit trace, <beta|rho|beta> a probability, real photon number).")

_add("C01", "Bosonic prepare_gaussian_state: subsystem i of (r, V) lands in the i-th listed mode for every ordered list of 1-3 modes of a "
            "4-mode register (labelled symbols).")
_add("C17", "takagi: whatever passes the validation is symmetric within the absolute tolerance (2 x 2, 3 x 3 symbolic); boundary-of-"
            "tolerance non-symmetric inputs in the stand-in.")
_add("C19", "Stand-in: sample post-processing (postselect, modes_from_counts, to_subgraphs on graphs with default, string, squared and "
            "permuted integer labels) enumerated for every sample in {0,1,2}^n, n <= 4.")
_add("C15", "Stand-in: every whole-register dimensionless query (purity, fidelity_vacuum, fidelity_coherent, trace) in the hbar sweep.")
_add("C04", "Command.get_dependencies (the real method; shape-bounded over every parameter-dependency subset and ordered target list of 3 wires, "
     "overlapping or not) returns exactly measurement_deps UNION targets - the contract the abstract commands assume; the stand-in alphabet "
     "includes feed-forward onto the measured mode itself.")
_add("C10", "BaseEngine._run on abstract segments: a successor that still holds outcomes from an earlier run of its own (repeated feed-forward "
     "segment) receives the predecessor's more recent outcome of every mode (shape-bounded).")
_add("C09", "Hand-over also replaces values the successor still holds from an earlier run of its own.")
_add("C10", "Stand-in: every sequence of <= 4 segments over {measure q0 selecting a distinct value, one REUSED feed-forward program}, one call and call by call, against the closed form.", idx=1)
