# CLAIMS[id] = (category, text, level_note, technique, design_ref)
_TB = ("Trusted: the engine's execution model (CPython running the instrumented real source on proxy values; rewrites R1-R7 "
       "listed in pyvc/instrument.py), z3/cvc5, A-real (doubles as mathematical reals, total division), the transcendental "
       "axioms printed in evidence.trusted_base, library contracts listed there. ")

CLAIMS["C08"] = ("proof",
    "Representation invariants proved after every public operation, so they hold for every call history: ModeMap "
    "(well-formedness + the whole alive/axis view after __init__/reset/add/delete/remap/valid, all list lengths, loop "
    "invariant + induction lemmas), and the Gaussian simulator's guard that a deleted mode is rejected with ValueError and "
    "leaves the state untouched. Unbounded in register size, mode indices and deletion sets.",
    _TB + "Not covered by proof: Program register bookkeeping, Fock/bosonic backends' add/del wrappers, backend.state labelling "
    "(planned, see DESIGN 5/C08).", "deductive verification: VCs from the real source + z3/cvc5", "DESIGN.md 5/C08")
CLAIMS["C01"] = ("proof",
    "Every Gaussian-simulator update method (displace, squeeze, phase_shift, beamsplitter, loss, thermal_loss) is proved to "
    "implement the documented Bogoliubov / channel action on ALL entries of N, M and alpha, for every register size, every "
    "target position and every real parameter (symbolic n, k, l, i, j; trig/hyperbolic functions abstracted by their "
    "algebraic identities). Two backends meeting the same independent spec agree.",
    _TB + "Scope: Gaussian simulator circuit layer only so far; bosonic/Fock layers and dispatch are planned (DESIGN 5/C01). "
    "thewalrus kernels and the TF backend are outside.", "deductive verification: VCs from the real source + z3/cvc5", "DESIGN.md 5/C01")
CLAIMS["C05"] = ("proof",
    "Frame clauses of the Gaussian simulator: for every update method, every entry of N, M, alpha outside the target "
    "rows/columns is proved unchanged (all n, all target positions); loss(0)/init_thermal leave the target mode uncorrelated "
    "with the rest.",
    _TB + "Scope: Gaussian simulator only so far.", "deductive verification: VCs from the real source + z3/cvc5", "DESIGN.md 5/C05")
CLAIMS["C07"] = ("proof",
    "Representation invariants hermitian(N), symmetric(M) proved preserved by every Gaussian-simulator mutator for all "
    "inputs; loss scales N[k,k] by T (never increases the photon number for 0<=T<=1).",
    _TB + "Physicality (uncertainty relation) follows from the canonical (A,B) by a textbook lemma that is trusted, not proved. "
    "Fock/bosonic clauses planned.", "deductive verification: VCs from the real source + z3/cvc5", "DESIGN.md 5/C07")
CLAIMS["C18"] = ("proof",
    "Program.__eq__ is proved sound for circuits of ARBITRARY length (symbolic lists of command stubs; loop invariant = the "
    "property's per-position clause): reported equal implies same number of commands and position-wise same class, "
    "parameters, modes, dagger flag and post-selection. program_equivalence: the node attributes and node_match are proved "
    "to imply same class, parameters within tolerance, same mode set (same order for order-sensitive gates), same dagger, "
    "by running the real function (and real networkx) on one-command programs with symbolic parameters and flags for a "
    "5-class alphabet x all mode placements; reflexive shortcut proved. Two genuine defects found this way were repaired "
    "(fix: commits bf95bfe, a4b227a).",
    _TB + "networkx.is_isomorphic is an assumed library contract (returns True only if a node_match-respecting bijection exists); "
    "invariance under permuting commuting commands rests on list_to_DAG being a function of per-wire orders (C04).",
    "deductive verification: VCs from the real source + z3/cvc5", "DESIGN.md 5/C18")
CLAIMS["C02"] = ("proof",
    "For Xgate, Zgate, Pgate, Fouriergate, MZgate, S2gate, CXgate, CZgate the REAL Gate.decompose/_decompose is executed on "
    "opaque real parameters (and symbolic hbar where it matters); the emitted command list, folded with the documented "
    "Heisenberg action of each primitive, equals the documented action of the composite for EVERY parameter value, for the "
    "dagger form (true inverse) and for every order/choice of target modes tried (ascending, descending, non-adjacent). "
    "Gate.apply's first-parameter convention (0 = identity, negation = inverse) is proved for every natively applied Gaussian "
    "gate class; it fails for MZgate (findings F36, F37, open, replayed on every run).",
    _TB + "Not yet under contract: mesh command builders (Interferometer), Gaussian/GraphEmbed/GaussianTransform decompositions "
    "(LAPACK; planned as bounded stand-ins), Compiler.decompose driver.",
    "deductive verification: VCs from the real source + z3/cvc5 (NRA with transcendental abstraction)", "DESIGN.md 5/C02")
CLAIMS["C04"] = ("other",
    "Bounded stand-in, NOT a proof: exhaustive over all command sequences up to length 3 (quick) / 4 (thorough) on a 13-symbol "
    "3-mode alphabet incl. feed-forward gates, plus random longer ones; checks per-wire grids, DAG paths between every "
    "dependent pair (covers every legal linearisation), group_operations partitions, remove_loss, GBS measurement collection. "
    "The contract technique has no unbounded reach here (dict-of-lists heap over networkx), see DESIGN 5/C04.",
    "bounded by sequence length / mode count; networkx sorts trusted to return linear extensions of the DAG",
    "bounded exhaustive enumeration against an independent dependency oracle (stand-in for contracts)", "DESIGN.md 5/C04")
CLAIMS["C19"] = ("other",
    "sample_to_event and orbit_to_sample are proved for lists of arbitrary length (exact integer spec). Everything else is a "
    "BOUNDED stand-in with independent oracles: partitions (n<=35/60), exact multinomial cardinalities (orbits of n<=8, "
    "modes<=60/200), conversions (<=4 modes), clique grow/swap/shrink and subgraph resize on every labelled graph with <=4/5 "
    "nodes with EVERY outcome of every random choice explored and compared with reference implementations of the documented "
    "selection rules. Three genuine defects found and repaired (fix: commits for orbit_cardinality x2, weight-mode index).",
    "bounded parts are never counted as proved; builtins max/sum/shuffle under library contracts",
    "deductive VCs for list functions + bounded exhaustive exploration of random choices", "DESIGN.md 5/C19")
CLAIMS["C11"] = ("proof",
    "The row-operation helpers of the gaussian_unitary and passive compilers (_apply_symp_one/two_mode_gate, "
    "_apply_one/two_mode_gate, _beam_splitter_passive) are proved for EVERY matrix size and target rows: S' = E S, r' = E r with "
    "the gate embedded at the target rows, whole-matrix postcondition. GaussianUnitary.compile is additionally executed for "
    "real on six circuit shapes (incl. descending, non-contiguous and hash-unordered mode sets {1,8}) with all parameters "
    "symbolic: the accumulated matrix equals the ordered product of the documented actions, the emitted GaussianTransform + "
    "Dgates have the same action on the register order they state, elision only within np.allclose tolerance (shape-bounded, "
    "reported separately). Bounded stand-in (c11_compilers): generated circuits over every Gaussian gate class on sparse, "
    "scrambled mode subsets of 4-11 mode registers compiled with gaussian_unitary / passive and compared exactly with the "
    "documented action of the emitted GaussianTransform / Dgate / PassiveChannel; gaussian_merge on hybrid circuits compared on "
    "the Fock simulator. F13 (hash-order layout), F51, F52 (gaussian_merge reordering) found and repaired; F14 (dagger ignored) "
    "is an open finding.",
    _TB + "thewalrus.symplectic helpers are executable models written from its documentation (conformance-tested natively); "
    "ops.GaussianTransform.__init__ is a contract stub. gaussian_merge (DAG surgery over networkx) is covered by the bounded "
    "stand-in only.",
    "deductive verification: VCs from the real source + z3/cvc5", "DESIGN.md 5/C11")
CLAIMS["C17"] = ("other",
    "Helper lemmas PROVED for all values: T and Ti have the documented 2x2 block and are the identity elsewhere for every matrix "
    "size; T.Ti = Ti.T = I; mach_zehnder equals its documented closed form and MZ.MZinv = I; nullT/nullTi (all three branches) "
    "and the zero branches of nullMZ/nullMZi make the targeted element exactly zero with an adjacent in-range mode pair; "
    "non-square input rejected. Whole routines are a BOUNDED stand-in (structured families, sizes 2..4 quick / 2..7 thorough): "
    "every mesh through Interferometer.decompose folded with independently defined gate unitaries, driver structure, takagi, "
    "williamson, bloch_messiah, graph_embed. F26, F34 (bloch_messiah) found and repaired; F39 (sun_compact) is an open finding.",
    _TB + "LAPACK-based routines and the general branch of nullMZ/nullMZi are bounded only; np.round(x,14) treated as x.",
    "deductive VCs (NRA with transcendental abstraction) for helper lemmas + bounded numeric stand-in for whole routines", "DESIGN.md 5/C17")
CLAIMS["C03"] = ("proof",
    "Merge rules PROVED for all parameter values and both dagger flags: for Dgate, Xgate, Zgate, Sgate, Pgate, Rgate, BSgate, "
    "S2gate, CXgate, CZgate the real Gate.merge returns None only if the composition of the documented actions is the "
    "identity and otherwise an operation whose documented action equals the composition; LossChannel/ThermalLossChannel "
    "merge = composition of the documented channels; Fouriergate and MSgate refuse to merge except Fourier with its inverse; "
    "self/other/parameter lists unmodified, result fresh. optimize_circuit is executed for real on 7 circuit shapes x 2 "
    "parameter-sharing patterns with all parameters symbolic: same documented action, not longer, inputs unmodified "
    "(shape-bounded, reported separately) and exhaustively on short sequences with feed-forward gates (bounded stand-in). "
    "F3, F4a, F4b found and repaired; F4c (MZgate public merge, pinned by an existing test) is an open finding.",
    _TB + "Non-Gaussian families (Kgate, Vgate, CKgate) are one-parameter groups by their documented definition exp(i p0 G) (not "
    "checked); Decomposition.merge (matrix products) not under contract.",
    "deductive verification: VCs from the real source + z3/cvc5 (NRA with transcendental abstraction)", "DESIGN.md 5/C03")
CLAIMS["C15"] = ("proof",
    "With hbar SYMBOLIC (> 0), every front-end conversion between hbar-dependent user units and the hbar-free backend API is "
    "proved to obey its scaling law by executing the real code against a recording stub backend: Xgate/Zgate (decompositions "
    "against the documented action), MeasureHomodyne._apply (select handed over hbar-free, outcome ~ sqrt(hbar)), "
    "MSgate._apply (ancilla outcome ~ sqrt(hbar); found wrong and repaired, F28), Vgate._apply, Gaussian._apply, "
    "BaseGaussianState.__init__ (means ~ sqrt(hbar), covariance ~ hbar, amplitudes hbar-free). A bounded end-to-end stand-in "
    "(same circuits at several hbar on three backends) is reported separately.",
    _TB + "thewalrus-computed Fock probabilities and the simulators' internal hbar=2 constants are not under contract.",
    "deductive verification: VCs from the real source + z3/cvc5 (NRA with sqrt abstraction)", "DESIGN.md 5/C15")
CLAIMS["C06"] = ("other",
    "Proved for all values: MeasureHomodyne unit conversion (select hbar-free to the backend, outcome x sqrt(hbar/2)); at fixed "
    "shapes (<= 3 modes, <= 2 shots, four measurement orders; reported as shape-bounded): Measurement.apply stores column j of the "
    "backend outcome in reg[j].val and nothing when shots is None, _combine_and_sort_samples returns rows = shots, columns = "
    "latest outcome per measured mode in ascending mode order. BOUNDED stand-in for the physics: the arguments handed to "
    "numpy.random.multivariate_normal / choice are the Born distribution of the pre-measurement state; conditional states are "
    "the Schur complement for the RETURNED outcome; vacuum reset; every ordered subset of measured modes with every outcome "
    "forced on the Fock backend; post-selected conditional states agree across gaussian/bosonic/fock. F21 found and repaired.",
    "bounded parts not counted as proved; the distributional claim (the draw IS Born distributed) is a statement about the RNG",
    "deductive VCs for unit conversion/storage/collation + bounded stand-in recording the RNG arguments", "DESIGN.md 5/C06")
CLAIMS["C16"] = ("other",
    "Proved: BaseGaussianState.reduced_gaussian for a SYMBOLIC number of modes and a mode list of symbolic length (whole result "
    "mu[modes ++ modes+N], cov[rows, cols]; non-ascending lists rejected; full-state shortcut only for range(N)); mean_photon "
    "reads exactly the requested mode (symbolic N). At fixed mode sets (6 subsets of a register of symbolic size, reported as "
    "shape-bounded): parity_expectation and reduced_dm ask for exactly the requested modes, hand only the REDUCED means/covariance "
    "to numpy.linalg / thewalrus (recording stubs), parity's value is the closed form of the reduced state, reduced_dm takes the "
    "pure shortcut iff the REDUCED state is pure and returns two indices per mode. BaseBosonicState (2 components x 2 modes and "
    "3 x 3, every weight / mean / covariance entry and the angle symbolic, shape-bounded): reduced_bosonic returns exactly the "
    "requested modes, quad_expectation = (weighted mean, second moment of the mixture minus squared mean), mean_photon mean and "
    "variance of the requested mode, fock_prob / reduced_dm hand every component in (x..,p..) order with its weight to thewalrus. "
    "Bounded stand-in: cross-method and cross-representation numerical identities on correlated 2-3 mode Gaussian states and "
    "two-mode cat states for every subset. F29, F30, F31 found and repaired; F42 (complex component means) is an open finding.",
    "thewalrus.quantum functions are recording stubs; numerical agreement of float pipelines is bounded only; sorted() library "
    "contract; bosonic contracts assume real weights and means",
    "deductive VCs over symbolic-size arrays + recording stubs for callee preconditions + bounded numeric stand-in", "DESIGN.md 5/C16")
CLAIMS["C14"] = ("other",
    "Proved at the IR-OBJECT level (real to_blackbird / from_blackbird / from_blackbird_to_tdm / to_xir / from_xir / "
    "from_xir_to_tdm executed on programs whose numeric parameters, post-selection values, dark counts, run options and TDM "
    "arrays are symbolic; blackbird.BlackbirdProgram / xir.Program replaced by record stubs; one obligation set per operation "
    "class on permuted modes + a mixed circuit + a TDM program: shape-bounded): the IR carries class name, modes in order, "
    "every parameter, select and dark_counts (falsy values included), target and options; converting does not modify the "
    "program (no aliasing of parameter lists); converting back rebuilds the same commands; measured-parameter expressions are "
    "re-bound to the same mode of the loaded program. Proved for every real |p| <= 1e6: io.utils._factor_out_pi returns text "
    "denoting its argument (lemma chain over round / mod). Bounded stand-in: text round trip through the real serialisers "
    "and parsers for every class of ops.__all__ x {blackbird, xir}, generate_code executed. F19, F43b-c, F49 found and repaired; "
    "F20, F35, F43a, F43-F48, F50 are open findings (TDM programs not serialisable to Blackbird text, dagger never serialised, symbolic parameters lost in the text, classes the IRs "
    "cannot express, generate_code drops select/dark_counts/dagger).",
    "blackbird / xir containers are record stubs in the proofs, their serialisers and parsers are only exercised by the bounded "
    "stand-in; real sympy is executed; floats as reals, np.isclose as its defining inequality",
    "deductive VCs with record stubs for the IR containers + lemma-chain proof of _factor_out_pi + bounded text round trip", "DESIGN.md 5/C14")
CLAIMS["C09"] = ("other",
    "Proved for all parameter values and both dagger flags (6 gate classes, normal and failing backend): Gate.apply leaves the "
    "operation's parameter list and its elements identical on normal AND exceptional exit, hands p[0] negated iff daggered, skips "
    "the backend iff p[0] == 0, passes modes in register order; merge and optimize_circuit never modify their inputs (C03 "
    "contracts), Gate.decompose flips only fresh products (C02 contracts). Bounded stand-in for the whole-history clauses: three "
    "ways of sequencing two programs (incl. a measured parameter crossing the boundary), reset = fresh engine, re-run, "
    "run/compile/optimize leave the user's Program untouched, on gaussian/fock/bosonic. F10 and F12 found and repaired; F9 "
    "(bosonic backend re-initialises per program) is an open finding.",
    "backend API = recording stub in the proofs; equality of final quantum states across call patterns is bounded only",
    "deductive VCs for frame conditions + bounded stand-in for call-history equivalence", "DESIGN.md 5/C09")
CLAIMS["C10"] = ("other",
    "Proved: a measured parameter is evaluated at APPLICATION time from the RegRef's current value (latest outcome, no caching), "
    "raises ParameterError before the measurement, par_evaluate/par_regref_deps semantics on real sympy expressions, unbound free "
    "parameters raise; all fixed-size decompositions are parametric (the C02 contracts run the real _decompose on opaque values). "
    "Bounded stand-in: symbolic vs substituted circuits agree through compile/decompose/optimize on three backends, most recent "
    "outcome around a re-measurement, unbound parameters raise. F12 repaired; F11 (sympy symbol identity across programs) is an "
    "open finding.",
    "sympy is executed for real (lambdify contract trusted); array-valued/TF parameters not covered",
    "deductive VCs + concrete sympy executions + bounded stand-in", "DESIGN.md 5/C10")
CLAIMS["C12"] = ("other",
    "Proved for all values: Range/Ranges membership with tolerance; Device.validate_parameters returns normally only if every "
    "(arbitrarily nested, flattened) value lies in an allowed range and raises ValueError otherwise / for unknown names; "
    "Borealis.update_params leaves every compensated phase in [-pi/2, pi/2] and changes it only by the accumulated loop offset "
    "modulo pi (3 loops x 2 time bins, everything symbolic; shape-bounded). Bounded stand-in: Xunitary/Xcov on generated source "
    "programs (zero/missing/repeated squeezers on one, two, all pairs; identity/swap/Haar interferometers; both gate orders; "
    "n = 4 quick, 4..8 thorough): X layout conformance, identical Gaussian state (Xunitary), identical photon statistics up to "
    "local phases (Xcov), wrong-pair squeezers rejected. F15 found and repaired.",
    "blackbird template matching / layout isomorphism not under contract; Takagi/mesh re-synthesis bounded only",
    "deductive VCs (linear real/integer arithmetic) + bounded numeric stand-in", "DESIGN.md 5/C12")
CLAIMS["C13"] = ("other",
    "Proved: shift_by is the cyclic rotation for every list length and shift. Bounded stand-in for the rest (the unrolling "
    "machinery drives Program.append and the sample arrangement is a property of an engine run): pulse-identifying "
    "displacements show that entry (shot, band, bin) of Result.samples is the outcome of that pulse for 7 band layouts x 3 bin "
    "counts x 2 shot counts x both measurement orders; register-shifting unrolling equals the hand-written fresh-mode loop, "
    "space-unrolling equals it too (single band); all unroll/space_unroll/roll/lock call sequences up to length 3/4; "
    "attributes of rolled operations survive. F17, F18, F33 found and repaired; F16, F32, F41 are open findings.",
    "bounded by the listed configurations; Gaussian backend only",
    "deductive VC for shift_by + bounded stand-in with pulse-identifying inputs", "DESIGN.md 5/C13")
