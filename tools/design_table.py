#!/usr/bin/env python3
"""refresh the coverage table of DESIGN.md section 0.2 from /verif/evidence/*.json (counts) and the static descriptions below"""
import json, os, re
V = "/verif"
CORE = {
 "C01": "`GaussianModes.displace/squeeze/phase_shift/beamsplitter/loss/thermal_loss/init_thermal/add_mode` = documented Bogoliubov / channel action on every entry of N, M, alpha for symbolic register size and positions; Fock `apply_twomode_gate` axis bookkeeping (ghost axis tracker, sizes 2-5, every ordered pair, pure/mixed); Fock wrapper: every method addresses the simulator through the mode map; bosonic simulator: every Gaussian operation = documented affine map on every component; bosonic `prepare_gaussian_state` for every ordered mode list",
 "C02": "9 gate decompositions (incl. sMZgate) x mode orders x dagger fold to the documented symplectic action for every parameter; `Gate.apply` first-parameter convention per class; `Gaussian._decompose` diagonal branches with symbolic variances",
 "C03": "`Gate.merge` for 10 families, `Channel.merge` (Loss, ThermalLoss, MSgate) = composition, operands untouched; `optimize_circuit` on fixed shapes and against abstract operations with a free non-commutative merge (call order, nothing lost, maximal merging); abstract operations with measured-parameter dependencies",
 "C04": "`Command.get_dependencies` = parameter dependencies UNION targets (the contract the abstract commands assume); shape-bounded contracts on ABSTRACT commands (dependency sets): `list_to_DAG`, `DAG_to_list`, `group_operations`, `optimize_circuit` keep every dependent pair in order; `par_regref_deps` over the parameter grammar; `gaussian_merge` and GBS collection bounded",
 "C05": "frame clauses of every Gaussian mutator (all entries outside the target rows/columns unchanged); Fock `prepare_multimode` / `partial_trace` / `mix` with labelled tensors (exactly the targets traced out, every other mode in place); bosonic frame clauses and general-dyne conditioning; Fock `dealloc` / `alloc`",
 "C06": "units / storage / collation of outcomes; inputs handed to the RNG are the Born distribution (Gaussian dyne, Fock sampled homodyne); distributional claims bounded; bosonic `post_select_generaldyne` (Schur complement, bilinear reweighting); sampler arguments of Gaussian photon counting",
 "C07": "hermitian(N), symmetric(M) preserved by every mutator; loss never increases n; physicality of produced states bounded; bosonic measurement-based squeezing is a completely positive channel",
 "C08": "`ModeMap` invariants after every public operation for every history; deleted modes rejected; Fock wrapper translates every mode argument; `FockBackend.state` returns the requested modes; bosonic `add_mode` / `del_mode`; Fock `dealloc` for every ordered mode list",
 "C09": "`Gate.apply`/merge/optimise/measurement `_apply` leave operations untouched (also when the backend raises); compositional runs bounded; `BaseEngine._run` / reset on abstract segments (successors holding stale outcomes included); `Program(parent)` shares nothing mutable; `_clear_regrefs`",
 "C10": "parameter evaluation at application time, most recent outcome, `par_evaluate`; circuits and functions of complex outcomes bounded; dependencies over the parameter grammar; mixed measured / free atoms",
 "C11": "row-operation helpers for symbolic matrices; `GaussianUnitary.compile` net action on fixed shapes incl. elision tolerance; `gaussian_merge` bounded (opaque gates interpreted as fixed unitaries, exact)",
 "C12": "`Range/Ranges`, `validate_parameters`, `Borealis.update_params` phase compensation; X-series compilers and device specification bounded",
 "C13": "`shift_by`; typestate of `roll` / `unroll` / `space_unroll` for every call history (symbolic sizes); shape-bounded: `_unroll_program` emits the explicit loop, `reshape_samples` arranges outcome (shot, band, bin); joint states, cropping, engine runs bounded",
 "C14": "IR-object round trip with record stubs (every class of the catalogue, falsy select, multi-digit measured modes, TDM arrays); `_factor_out_pi` for all reals (lemma chain); twelve loop variables",
 "C15": "hbar scaling of MeasureHomodyne / MSgate / Vgate / Gaussian / state constructors with symbolic hbar; operation objects untouched, second application identical; state objects closed over their own hbar (global and state hbar different symbols)",
 "C16": "`reduced_gaussian` (symbolic size), consumers hand the reduced data on; bosonic state methods (symbolic values); Fock / Gaussian index strings with labelled tensors (`dm`, `trace`, `reduced_dm`, `fidelity`, pure-branch order); bosonic `marginal`; Fock `fidelity`",
 "C17": "T/Ti/MZ block structure, T.Ti = I, nulling lemmas; LAPACK routines bounded; drivers `graph_embed` / `bipartite_graph_embed` against callee contracts; `takagi` validation (absolute tolerance)",
 "C18": "`Program.__eq__` for circuits of any length; `program_equivalence` per class/placement and, for 2-3 commands, the labelled graphs handed to networkx (every node carries its own command's data), also structure-only",
 "C19": "`sample_to_event`, `orbit_to_sample`, `postselect` for any length; combinatorics and local search (all outcomes enumerated) bounded",
}
rows = ["| id | level | unbounded | shape-bounded | stand-ins | core of what is discharged |", "|----|-------|-----------|---------------|-----------|-----------------------------|"]
for pid in sorted(CORE):
    try:
        d = json.load(open(f"{V}/evidence/{pid}.json"))
    except Exception:
        continue
    c = d["coverage"]
    sb = c.get("shape_bounded", {}).get("discharged", 0)
    st = ", ".join(b["name"] for b in c.get("bounded_standins", [])) or "-"
    rows.append(f"| {pid} | {d['level']} | {c['discharged']} | {sb or '-'} | {st} | {CORE[pid]} |")
rows.append("| C20 | n/a | | | | see 0.6 |")
p = f"{V}/DESIGN.md"
s = open(p).read()
a = s.index("| id | level | unbounded")
b = s.index("| C20 | n/a |")
b = s.index("\n", b)
s = s[:a] + "\n".join(rows) + s[b:]
open(p, "w").write(s)
print("\n".join(rows[:4]))
