#!/usr/bin/env python3
"""refresh the coverage table of DESIGN.md section 0.2 from /verif/evidence/*.json (counts) and the static descriptions below"""
import json, os, re
V = "/verif"
CORE = {
 "C01": "`GaussianModes.displace/squeeze/phase_shift/beamsplitter/loss/thermal_loss/init_thermal/add_mode` = documented Bogoliubov / channel action on every entry of N, M, alpha for symbolic register size and positions; Fock `apply_twomode_gate` axis bookkeeping (ghost axis tracker, sizes 2-5, every ordered pair, pure/mixed); Fock wrapper: every method addresses the simulator through the mode map",
 "C02": "9 gate decompositions (incl. sMZgate) x mode orders x dagger fold to the documented symplectic action for every parameter; `Gate.apply` first-parameter convention per class",
 "C03": "`Gate.merge` for 10 families, `Channel.merge` (Loss, ThermalLoss, MSgate) = composition, operands untouched; `optimize_circuit` on fixed shapes and against abstract operations with a free non-commutative merge (call order, nothing lost, maximal merging)",
 "C04": "no contract in reach (dict-of-lists heap over networkx); bounded only: exhaustive sequences, GBS collection incl. register histories",
 "C05": "frame clauses of every Gaussian mutator (all entries outside the target rows/columns unchanged); Fock `prepare_multimode` / `partial_trace` / `mix` with labelled tensors (exactly the targets traced out, every other mode in place)",
 "C06": "units / storage / collation of outcomes; inputs handed to the RNG are the Born distribution (Gaussian dyne, Fock sampled homodyne); distributional claims bounded",
 "C07": "hermitian(N), symmetric(M) preserved by every mutator; loss never increases n; physicality of produced states bounded",
 "C08": "`ModeMap` invariants after every public operation for every history; deleted modes rejected; Fock wrapper translates every mode argument; `FockBackend.state` returns the requested modes",
 "C09": "`Gate.apply`/merge/optimise/measurement `_apply` leave operations untouched (also when the backend raises); compositional runs bounded",
 "C10": "parameter evaluation at application time, most recent outcome, `par_evaluate`; circuits and functions of complex outcomes bounded",
 "C11": "row-operation helpers for symbolic matrices; `GaussianUnitary.compile` net action on fixed shapes incl. elision tolerance; `gaussian_merge` bounded (opaque gates interpreted as fixed unitaries, exact)",
 "C12": "`Range/Ranges`, `validate_parameters`, `Borealis.update_params` phase compensation; X-series compilers and device specification bounded",
 "C13": "`shift_by` = cyclic rotation for every length; unrolling, sample arrangement, cropping bounded against the hand-written loop",
 "C14": "IR-object round trip with record stubs (every class of the catalogue, falsy select, multi-digit measured modes, TDM arrays); `_factor_out_pi` for all reals (lemma chain)",
 "C15": "hbar scaling of MeasureHomodyne / MSgate / Vgate / Gaussian / state constructors with symbolic hbar; operation objects untouched, second application identical",
 "C16": "`reduced_gaussian` (symbolic size), consumers hand the reduced data on; bosonic state methods (symbolic values); Fock / Gaussian index strings with labelled tensors (`dm`, `trace`, `reduced_dm`, `fidelity`, pure-branch order)",
 "C17": "T/Ti/MZ block structure, T.Ti = I, nulling lemmas; LAPACK routines bounded",
 "C18": "`Program.__eq__` for circuits of any length; `program_equivalence` per class/placement",
 "C19": "`sample_to_event`, `orbit_to_sample` for any length; combinatorics and local search (all outcomes enumerated) bounded",
}
rows = ["| id | level | unbounded | shape-bounded | stand-ins | core of what is discharged |", "|----|-------|-----------|---------------|-----------|-----------------------------|"]
for pid in sorted(CORE):
    try:
        d = json.load(open(f"{V}/evidence/{pid}.json"))
    except Exception:
        continue
    c = d["coverage"]
    sb = c.get("shape_bounded", {}).get("discharged", 0)
    st = ", ".join(b["name"] for b in c.get("bounded_standins", [])) or "-"
    rows.append(f"| {pid} | {d['level']} | {c['discharged']} | {sb or '-'} | {st} | {CORE[pid]} |")
rows.append("| C20 | n/a | | | | see 0.6 |")
p = f"{V}/DESIGN.md"
s = open(p).read()
a = s.index("| id | level | unbounded")
b = s.index("| C20 | n/a |")
b = s.index("\n", b)
s = s[:a] + "\n".join(rows) + s[b:]
open(p, "w").write(s)
print("\n".join(rows[:4]))
